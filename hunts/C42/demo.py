"""
C42 demo: BackupDB_v2.check_file() tells the backup tool to reuse the old
filecap although the file's modification time and change time do NOT match
the ones it had when it was uploaded (and size is the same, content differs).

Cause: check_file() reads s[stat.ST_MTIME] / s[stat.ST_CTIME], which are the
timestamps truncated to whole seconds, and did_upload_file() records those.
Any change of content/mtime/ctime (or a rename of another file onto the path)
that lands in the same wall-clock second as the recorded stat is invisible.

Uses the real backupdb code, an in-memory sqlite db and a real temp dir.
Exit 1 = violation observed, exit 0 = not observed.
"""
import os, sys, time, tempfile, shutil

from allmydata.scripts import backupdb


def wait_for_early_second(max_frac=0.15):
    # make sure the whole scenario (a few ms) fits inside one wall-clock second
    while (time.time() % 1.0) > max_frac:
        time.sleep(0.01)


def full_stat(p):
    s = os.stat(p)
    return (s.st_size, s.st_mtime_ns, s.st_ctime_ns)


def scenario_rewrite(bdb, d):
    """upload v1; rewrite the file in place with different same-size content
    and an explicitly different mtime; ask the db again."""
    p = os.path.join(d, "rewrite.txt")
    wait_for_early_second()
    with open(p, "wb") as f:
        f.write(b"AAAAAAAAAAAAAAAA  version one\n")
    r = bdb.check_file(p)
    assert r.was_uploaded() is False, "fresh file must need upload"
    before = full_stat(p)
    r.did_upload(b"URI:CHK:cap-of-version-one")

    time.sleep(0.05)
    with open(p, "wb") as f:                      # content change, same size
        f.write(b"BBBBBBBBBBBBBBBB  version TWO\n")
    # timestamp change: move mtime by +0.3s (still a different mtime)
    os.utime(p, ns=(before[1] + 300_000_000, before[1] + 300_000_000))
    after = full_stat(p)
    r2 = bdb.check_file(p)
    return ("rewrite", before, after, r2)


def scenario_rename(bdb, d):
    """upload a.txt; create an unrelated file with the same size and move it
    onto a.txt's path (rename); ask the db again."""
    p = os.path.join(d, "a.txt")
    q = os.path.join(d, "other.txt")
    wait_for_early_second()
    with open(p, "wb") as f:
        f.write(b"the original a.txt contents...\n")
    r = bdb.check_file(p)
    assert r.was_uploaded() is False
    before = full_stat(p)
    r.did_upload(b"URI:CHK:cap-of-original-a")

    time.sleep(0.05)
    with open(q, "wb") as f:
        f.write(b"a completely different file...\n")
    assert os.path.getsize(q) == before[0]
    os.replace(q, p)                              # rename onto the old path
    after = full_stat(p)
    r2 = bdb.check_file(p)
    return ("rename", before, after, r2)


def main():
    d = tempfile.mkdtemp(prefix="c42h-")
    failures = []
    try:
        bdb = backupdb.get_backupdb(":memory:", stderr=sys.stderr)
        assert bdb is not None
        for scen in (scenario_rewrite, scenario_rename):
            for attempt in range(20):
                name, before, after, r2 = scen(bdb, d)
                same_second = (before[1] // 10**9 == after[1] // 10**9 and
                               before[2] // 10**9 == after[2] // 10**9)
                if same_second:
                    break
                # crossed a second boundary (or utime pushed mtime over it): retry
                for fn in os.listdir(d):
                    os.unlink(os.path.join(d, fn))
                bdb = backupdb.get_backupdb(":memory:", stderr=sys.stderr)
            print("[%s] at upload : size=%d mtime_ns=%d ctime_ns=%d" % ((name,) + before))
            print("[%s] at recheck: size=%d mtime_ns=%d ctime_ns=%d" % ((name,) + after))
            mtime_differs = before[1] != after[1]
            ctime_differs = before[2] != after[2]
            print("[%s] mtime differs: %s, ctime differs: %s" % (name, mtime_differs, ctime_differs))
            if not (mtime_differs or ctime_differs):
                print("[%s] filesystem has no sub-second timestamps; inconclusive" % name)
                continue
            cap = r2.was_uploaded()
            print("[%s] check_file -> was_uploaded()=%r should_check()=%r" %
                  (name, cap, r2.should_check()))
            if cap and not r2.should_check():
                failures.append("%s: db says reuse %r although mtime/ctime changed "
                                "(content on disk is different)" % (name, cap))
    finally:
        shutil.rmtree(d, ignore_errors=True)

    if failures:
        print("VIOLATION of C42:")
        for f in failures:
            print("  " + f)
        sys.exit(1)
    print("no violation observed")
    sys.exit(0)


if __name__ == "__main__":
    main()
