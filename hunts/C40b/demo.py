"""
C40 demo: Range headers that are NOT valid RFC 7233 byte-range-specs
("bytes=1_0-2_0", "bytes=+1-2", "bytes=-+3", "bytes=1 -2", non-ASCII digits)
are not ignored: the web API answers 206 / 416 instead of 200 with the
full file.  Real code exercised: allmydata.web.filenode.FileNodeHandler ->
FileDownloader.render / parse_range_header, with a real LiteralFileNode and a
real twisted.web.server.Request.  Everything runs synchronously (no reactor).

Run: PYTHONPATH=/tmp/wt/C40h/src:/tmp/shims /venv/bin/python demo.py
"""
import re, sys
from twisted.web.server import Request, NOT_DONE_YET
from twisted.web.test.requesthelper import DummyChannel
from allmydata.uri import LiteralFileURI
from allmydata.immutable.literal import LiteralFileNode
from allmydata.web.filenode import FileNodeHandler


class Chan(DummyChannel):
    """DummyChannel that drives pull producers (LiteralFileNode uses FileSender)."""
    _prod = None
    def registerProducer(self, producer, streaming):
        self._prod = producer
        if not streaming:
            while self._prod is producer:
                producer.resumeProducing()
    def unregisterProducer(self):
        self._prod = None


def do_req(node, method, rangehdr):
    ch = Chan()
    req = Request(ch, False)
    req.method = method
    req.clientproto = b"HTTP/1.0"
    req.uri = req.path = b"/uri/x"
    req.args = {}
    req.prepath, req.postpath = [], []
    req.requestHeaders.setRawHeaders(b"range", [rangehdr.encode("utf-8")])
    done = []
    req.notifyFinish().addBoth(done.append)
    r = FileNodeHandler(None, node).render(req)
    assert r == NOT_DONE_YET and done, "request did not finish synchronously"
    raw = ch.transport.written.getvalue()
    head, _, body = raw.partition(b"\r\n\r\n")
    lines = head.split(b"\r\n")
    code = int(lines[0].split()[1])
    hdrs = {}
    for l in lines[1:]:
        k, _, v = l.partition(b":")
        hdrs[k.strip().lower().decode()] = v.strip().decode()
    return code, hdrs, body


def is_rfc7233_byte_ranges(h):
    # byte-ranges-specifier = "bytes=" 1#( 1*DIGIT "-" [1*DIGIT] / "-" 1*DIGIT )
    m = re.fullmatch(r"bytes=(.*)", h, re.S)
    if not m:
        return False
    return all(re.fullmatch(r"[0-9]+-[0-9]*|-[0-9]+", s.strip(" \t"))
               for s in m.group(1).split(","))


# None of these matches the RFC 7233 grammar (DIGIT is %x30-39 only; no sign,
# no '_' separators, no blanks inside a byte-range-spec).
GARBAGE = [
    "bytes=1_0-2_0",     # Python 3.6+ int() accepts '_' digit separators
    "bytes=-1_0",
    "bytes=+1-2",        # int() accepts a sign
    "bytes=1-+2",
    "bytes=-+3",
    "bytes=1 -2",        # int() strips blanks
    "bytes=1- 2",
    "bytes=١-٢",   # ARABIC-INDIC DIGIT ONE / TWO: int() accepts any Unicode Nd
    "bytes=１-",         # FULLWIDTH DIGIT ONE
    "bytes=0-٥",
]
# controls: garbage that the code does treat correctly
CONTROL = ["bytes=abc", "bytes=1-0x5", "bytes=1.0-2", "bits=0-1", "bytes=--1"]

failures = []
checked = 0
for size in list(range(0, 61)) + [127, 128, 129, 255, 256, 257, 299, 300]:
    data = bytes((i * 7 + size) % 256 for i in range(size))
    node = LiteralFileNode(LiteralFileURI(data))
    # sanity: a well-formed header works
    if size > 2:
        code, h, body = do_req(node, b"GET", "bytes=1-2")
        assert (code, body, h["content-range"]) == (206, data[1:3], "bytes 1-2/%d" % size)
    for hdr in GARBAGE + CONTROL:
        assert not is_rfc7233_byte_ranges(hdr), hdr
        for method in (b"GET", b"HEAD"):
            code, h, body = do_req(node, method, hdr)
            checked += 1
            want_body = data if method == b"GET" else b""
            ok = (code == 200 and body == want_body
                  and h.get("content-length") == str(size)
                  and "content-range" not in h)
            if not ok:
                failures.append((size, hdr, method.decode(), code,
                                 h.get("content-range"), h.get("content-length"), len(body)))

print("checked %d requests with unparseable Range headers; %d did not get the full file"
      % (checked, len(failures)))
seen = set()
for f in failures:
    if f[3] != 206 or (f[1], f[2]) in seen:   # one 206 example per header and method
        continue
    seen.add((f[1], f[2]))
    print("  size=%d Range=%r %s -> %d content-range=%r content-length=%r body=%d bytes (expected 200, full file)"
          % f)
if failures:
    print("VIOLATION: Range headers that cannot be parsed as RFC 7233 byte ranges are honoured "
          "(206/416) instead of being ignored (200, full file)")
    sys.exit(1)
print("ok")
sys.exit(0)
