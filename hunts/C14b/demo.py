"""
C14 demo: mutable repair WITHOUT force silently discards a competing version that
has the SAME sequence number as the best recoverable version (and even a HIGHER
root hash, i.e. it is "newer" in the (seqnum, roothash) order the code itself uses)
when that competitor has fewer than k shares.

Run: PYTHONPATH=/tmp/wt/C14h/src:/tmp/shims /venv/bin/python _hunt/demo.py
"""
import os, sys, shutil, tempfile, hashlib
from twisted.internet import defer, task
from foolscap.eventual import fireEventually
from allmydata.util import cputhreadpool
cputhreadpool._DISABLED = True
from allmydata.storage.server import StorageServer, FoolscapStorageServer
from allmydata.storage_client import _StorageServer
from allmydata.nodemaker import NodeMaker
from allmydata.client import SecretHolder, KeyGenerator
from allmydata.monitor import Monitor
from allmydata.mutable.publish import MutableData
from allmydata.mutable.common import MODE_CHECK
from allmydata.mutable.repairer import MustForceRepairError
from allmydata.util import base32

class FakeRRef:
    def __init__(self, fss): self.fss = fss
    def callRemote(self, name, *a, **kw):
        # like foolscap: never answer in the same reactor turn
        d = fireEventually()
        return d.addCallback(lambda _: getattr(self.fss, "remote_" + name)(*a, **kw))

from zope.interface import implementer
from allmydata.interfaces import IDisplayableServer
@implementer(IDisplayableServer)
class FakeServer:
    def get_nickname(self): return 'S%d' % self.i
    def __init__(self, i, basedir):
        self.i = i
        self.serverid = hashlib.sha1(b"server%d" % i).digest()
        self.storedir = os.path.join(basedir, "s%d" % i)
        self.ss = StorageServer(self.storedir, self.serverid)
        self.rref = FakeRRef(FoolscapStorageServer(self.ss))
        self.istorage = _StorageServer(lambda: self.rref)
    def get_serverid(self): return self.serverid
    def get_name(self): return base32.b2a(self.serverid)[:8]
    def get_longname(self): return base32.b2a(self.serverid)
    def get_lease_seed(self): return self.serverid
    def get_foolscap_write_enabler_seed(self): return self.serverid
    def get_storage_server(self): return self.istorage
    def upload_permitted(self): return True
    def __repr__(self): return "<S%d>" % self.i

class FakeBroker:
    def __init__(self, servers): self.servers = servers
    def get_servers_for_psi(self, si):
        return sorted(self.servers, key=lambda s: hashlib.sha1(si + s.serverid).digest())
    def get_connected_servers(self): return list(self.servers)
    def get_all_serverids(self): return [s.serverid for s in self.servers]

def sharedir(server):
    return os.path.join(server.storedir, "shares")
def snapshot(servers, dest):
    for s in servers:
        d = os.path.join(dest, "s%d" % s.i)
        shutil.rmtree(d, ignore_errors=True)
        shutil.copytree(sharedir(s), d)
def restore(server, src):
    shutil.rmtree(sharedir(server))
    shutil.copytree(os.path.join(src, "s%d" % server.i), sharedir(server))

def describe(smap):
    out = []
    for v, shares in sorted(smap.make_versionmap().items()):
        out.append("seq%d-%s x%d" % (v[0], base32.b2a(v[1])[:6].decode(), len(set(s[0] for s in shares))))
    return ", ".join(out) or "(none)"

@defer.inlineCallbacks
def main(reactor):
    base = tempfile.mkdtemp(prefix="c14h")
    servers = [FakeServer(i, base) for i in range(10)]
    sb = FakeBroker(servers)
    nm = NodeMaker(sb, SecretHolder(b"lease", b"conv"), None, None, None,
                   {"k": 3, "n": 10, "happy": 1}, 0, KeyGenerator())
    node = yield nm.create_mutable_file(MutableData(b"version one " * 20))   # seqnum 1
    cap = node.get_uri()
    snapshot(servers, os.path.join(base, "S1"))
    # two uncoordinated writers both produce seqnum 2 from the same seqnum-1 state
    yield node.overwrite(MutableData(b"contents of writer A " * 20))
    snapshot(servers, os.path.join(base, "SA"))
    for s in servers: restore(s, os.path.join(base, "S1"))
    yield node.overwrite(MutableData(b"contents of writer B " * 20))
    snapshot(servers, os.path.join(base, "SB"))

    # find root hashes of A and B so that the 2-share minority is the one with the HIGHER roothash
    def roothash_of(snap):
        for s in servers: restore(s, os.path.join(base, snap))
        return node.get_servermap(MODE_CHECK).addCallback(lambda m: m.best_recoverable_version())
    vA = yield roothash_of("SA"); vB = yield roothash_of("SB")
    assert vA[0] == vB[0] == 2 and vA[1] != vB[1]
    (big, bigdata), (small, smalldata) = sorted(
        [(("SA"), b"contents of writer A " * 20), (("SB"), b"contents of writer B " * 20)],
        key=lambda t: (vA if t[0] == "SA" else vB)[1], reverse=True)
    # 'big' = snapshot whose version has the higher root hash: give it only 2 shares (< k=3)
    order = sb.get_servers_for_psi(node.get_storage_index())
    # control: give the competitor 3 shares (= k): repair without force refuses, as it should
    for s in order[:7]: restore(s, os.path.join(base, small))
    for s in order[7:]: restore(s, os.path.join(base, big))
    cnode = nm.create_from_cap(cap)
    ccr = yield cnode.check(Monitor())
    try:
        yield cnode.repair(ccr, force=False)
        print("control (7 + 3 shares): repair ran ?!")
    except MustForceRepairError:
        print("control (7 + 3 shares of the two seqnum-2 versions): repair(force=False) refused, good")
    # the case: the same competitor holds only 2 shares (< k)
    for s in order[:8]: restore(s, os.path.join(base, small))
    for s in order[8:]: restore(s, os.path.join(base, big))

    node = nm.create_from_cap(cap)
    cr = yield node.check(Monitor())
    before = describe(cr.get_servermap())
    print("before repair:", before, "| healthy =", cr.is_healthy())
    print("  recoverable=%d unrecoverable=%d; the 2-share version has the same seqnum and the %s root hash"
          % (cr.get_version_counter_recoverable(), cr.get_version_counter_unrecoverable(), "HIGHER"))
    refused = False
    try:
        rr = yield node.repair(cr, force=False)
    except MustForceRepairError as e:
        refused = True
        print("repair(force=False) refused:", e)
    if refused:
        print("OK: property holds"); shutil.rmtree(base); return 0
    smap = yield node.get_servermap(MODE_CHECK)
    after = describe(smap)
    data = yield node.download_best_version()
    print("repair(force=False) ran, successful =", rr.get_successful())
    print("after repair: ", after)
    print("  surviving contents are those of the LOWER-roothash writer:", data == smalldata)
    print("VIOLATION: repair without force picked between two competing seqnum-2 versions "
          "and destroyed every share of the (newer by seqnum,roothash order) unrecoverable one")
    shutil.rmtree(base)
    return 1

def run(reactor):
    d = main(reactor)
    d.addTimeout(50, reactor)
    def done(rc):
        global RC; RC = rc
    return d.addCallback(done)
RC = 2
task.react(lambda r: run(r).addCallback(lambda _: os._exit(RC)))
