"""
C09 demo: one writer, real mutable-file code, real StorageServers, default
segment size, no faults.

  1. MDMF file whose size is an exact multiple of the segment size:
     appending at EOF (offset == size, the documented way to append) fails.
  2. Empty MDMF file: update at offset 0 fails.
  3. Empty SDMF file: update at offset 0 fails.

Every operation is legal for IWriteable.update(); the model says the file must
afterwards read back old[:offset] + data.  Exit 1 if any of them does not.

Run:  PYTHONPATH=/tmp/wt/C09h/src:/tmp/shims /venv/bin/python demo.py
"""
import os, shutil, sys, tempfile

from twisted.internet import defer, task
from foolscap.api import fireEventually

import allmydata.util.cputhreadpool as ctp
ctp._DISABLED = True
from allmydata import client
from allmydata.node import config_from_string
from allmydata.nodemaker import NodeMaker
from allmydata.interfaces import SDMF_VERSION, MDMF_VERSION
from allmydata.util import base32
from allmydata.util.hashutil import tagged_hash
from allmydata.storage_client import StorageFarmBroker
from allmydata.storage.server import StorageServer, FoolscapStorageServer
from allmydata.mutable.publish import MutableData, DEFAULT_MUTABLE_MAX_SEGMENT_SIZE
from allmydata.crypto import rsa

K, N = 3, 10


class LocalRref:
    """Stands in for a foolscap RemoteReference to a storage server."""
    def __init__(self, fss):
        self.fss = fss

    def callRemote(self, name, *args, **kwargs):
        d = fireEventually()
        d.addCallback(lambda _: getattr(self.fss, "remote_" + name)(*args, **kwargs))
        return d


def make_nodemaker(basedir):
    sb = StorageFarmBroker(True, None, config_from_string("/dev/null", "tub.port", ""))
    for i in range(N):
        peerid = base32.b2a(tagged_hash(b"peerid", b"%d" % i)[:20])
        ss = StorageServer(os.path.join(basedir, "s%d" % i), peerid[:20])
        ann = {"anonymous-storage-FURL": "pb://%s@nowhere/fake" % str(peerid, "ascii"),
               "permutation-seed-base32": peerid}
        sb.test_add_rref(peerid, LocalRref(FoolscapStorageServer(ss)), ann)
    sh = client.SecretHolder(b"lease secret", b"convergence secret")
    return NodeMaker(sb, sh, None, None, None, {"k": K, "n": N},
                     SDMF_VERSION, client.KeyGenerator())


@defer.inlineCallbacks
def scenario(basedir, keypair, label, fmt, old, offset, data):
    """create(old); update(data, offset); read.  Returns True if C09 holds."""
    # a fresh grid per scenario (the shared keypair means a shared storage index)
    nm = make_nodemaker(os.path.join(basedir, "grid%d" % len(os.listdir(basedir))))
    node = yield nm.create_mutable_file(MutableData(old), version=fmt, keypair=keypair)
    first = yield node.download_best_version()
    assert first == old, "create/read already broken?!"
    expected = old[:offset] + data + old[offset + len(data):]
    err = None
    try:
        mv = yield node.get_best_mutable_version()
        yield mv.update(MutableData(data), offset)
    except Exception as e:
        err = e
    got = yield node.download_best_version()
    ok = (err is None and got == expected)
    print("%-34s size=%-7d update(offset=%d, len=%d): %s" % (
        label, len(old), offset, len(data),
        "ok" if ok else "VIOLATION"))
    if err is not None:
        print("      update raised %s: %s" % (type(err).__name__, str(err)[:120]))
    if got != expected:
        print("      file reads back %d bytes (%s), expected %d bytes" % (
            len(got), "unchanged" if got == old else "changed", len(expected)))
    return ok


@defer.inlineCallbacks
def main(reactor, basedir, result):
    priv, pub = rsa.create_signing_keypair(2048)
    keypair = (pub, priv)
    os.makedirs(basedir, exist_ok=True)
    # the real MDMF segment size: 128 KiB rounded up to a multiple of k
    segsize = -(-DEFAULT_MUTABLE_MAX_SEGMENT_SIZE // K) * K
    print("MDMF segment size with k=%d: %d" % (K, segsize))
    one = os.urandom(segsize)
    two = os.urandom(2 * segsize)
    tail = b"appended-bytes"
    results = []
    # control: one byte short of the boundary works
    r = yield scenario(basedir, keypair, "control: MDMF, 1 segment - 1 byte", MDMF_VERSION,
                       one[:-1], segsize - 1, tail)
    results.append(r)
    r = yield scenario(basedir, keypair, "MDMF, exactly 1 segment, append", MDMF_VERSION,
                       one, segsize, tail)
    results.append(r)
    r = yield scenario(basedir, keypair, "MDMF, exactly 2 segments, append", MDMF_VERSION,
                       two, 2 * segsize, tail)
    results.append(r)
    r = yield scenario(basedir, keypair, "MDMF, empty file, write at 0", MDMF_VERSION,
                       b"", 0, tail)
    results.append(r)
    r = yield scenario(basedir, keypair, "SDMF, empty file, write at 0", SDMF_VERSION,
                       b"", 0, tail)
    results.append(r)
    result.append(all(results))


if __name__ == "__main__":
    basedir = tempfile.mkdtemp(prefix="c09demo")
    result = []
    try:
        task.react(lambda r: main(r, basedir, result).addTimeout(55, r))
    except SystemExit as e:
        if e.code not in (0, None):
            print("demo harness error")
            sys.exit(2)
    finally:
        shutil.rmtree(basedir, ignore_errors=True)
    if result and result[0]:
        print("C09 holds for these inputs")
        sys.exit(0)
    print("C09 VIOLATED: a legal in-place update/append did not extend the file")
    sys.exit(1)
