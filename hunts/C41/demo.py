"""
C41 hunt demo: a modifying web-API request made through a READ-ONLY directory
cap is (correctly) refused, but it still changes the grid: when the request
asks for a mutable file (format=SDMF / MDMF / mutable=true) the web layer
creates and publishes a brand-new mutable file on the storage servers BEFORE
the read-only parent directory is consulted.

Drives the real allmydata.web resources (URIHandler -> DirectoryNodeHandler ->
PlaceHolderNodeHandler / FileNodeHandler), the real dirnode / mutable code and
real StorageServers on temp dirs.  Only the transport (callRemote) and the
tiny "client" facade are faked.

exit 1 = violation observed, exit 0 = not observed.
"""
import os, sys, hashlib, tempfile, shutil
from io import BytesIO

from twisted.internet import defer, task
from twisted.web.resource import Resource, getChildForRequest
from twisted.web.test.requesthelper import DummyChannel
from foolscap.api import fireEventually

from allmydata import client as client_mod
from allmydata.node import config_from_string
from allmydata.nodemaker import NodeMaker
from allmydata.interfaces import SDMF_VERSION
from allmydata.storage.server import StorageServer, FoolscapStorageServer
from allmydata.storage_client import StorageFarmBroker
from allmydata.util import base32
from allmydata.util.hashutil import tagged_hash
from allmydata.web.root import URIHandler
from allmydata.web.operations import OphandleTable
from allmydata.webish import TahoeLAFSRequest


class LocalRef:
    """callRemote(name, ...) -> remote_<name>(...) on a real FoolscapStorageServer."""
    def __init__(self, original):
        self.original = original
    def callRemote(self, methname, *args, **kwargs):
        d = fireEventually()
        d.addCallback(lambda ign: getattr(self.original, "remote_" + methname)(*args, **kwargs))
        return d
    def notifyOnDisconnect(self, *a, **kw):
        return None
    def dontNotifyOnDisconnect(self, *a, **kw):
        pass
    def getRemoteTubID(self):
        return "fake"
    def getLocationHints(self):
        return []


class FakeWebService:
    def __init__(self):
        self._ops = OphandleTable()
    def get_operations(self):
        return self._ops


class FakeClient:
    """The few attributes allmydata.web.{root,directory,filenode} use."""
    def __init__(self, nodemaker):
        self.nodemaker = nodemaker
        self.convergence = b"convergence secret"
        self.mutable_file_default = SDMF_VERSION
        self._ws = FakeWebService()
    def get_web_service(self):
        return self._ws
    def create_node_from_uri(self, write_uri, read_uri=None, deep_immutable=False, name=u"<unknown name>"):
        return self.nodemaker.create_from_cap(write_uri, read_uri, deep_immutable=deep_immutable, name=name)
    def create_mutable_file(self, contents=None, version=None, *, unique_keypair=None):
        return self.nodemaker.create_mutable_file(contents, version=version, keypair=unique_keypair)


def grid_snapshot(basedirs):
    """{relative share path: sha256} for every file the storage servers hold."""
    snap = {}
    for b in basedirs:
        for root, dirs, files in os.walk(os.path.join(b, "shares")):
            for f in files:
                p = os.path.join(root, f)
                with open(p, "rb") as fh:
                    snap[os.path.relpath(p, os.path.dirname(b))] = hashlib.sha256(fh.read()).hexdigest()
    return snap


class Field:
    def __init__(self, data, filename):
        self.file = BytesIO(data)
        self.filename = filename
        self.value = data


def do_request(root, method, path_segments, args, body=b"", fields=None):
    """Traverse + render like twisted.web.server.Site would.  -> Deferred[(code, body)]"""
    channel = DummyChannel()
    req = TahoeLAFSRequest(channel)
    req.method = method
    req.clientproto = b"HTTP/1.1"
    req.uri = b"/" + b"/".join(path_segments)
    req.path = req.uri
    req.args = {k: [v] for k, v in args.items()}
    req.fields = fields
    req.content = BytesIO(body)
    req.prepath = []
    req.postpath = list(path_segments)
    done = req.notifyFinish()
    resrc = getChildForRequest(root, req)
    req.render(resrc)
    def _got(ign):
        raw = channel.transport.written.getvalue()
        header, _, rbody = raw.partition(b"\r\n\r\n")
        return req.code, rbody
    done.addCallback(_got)
    return done


@defer.inlineCallbacks
def main(reactor):
    from allmydata.util import cputhreadpool
    cputhreadpool._DISABLED = True
    tmp = tempfile.mkdtemp(prefix="c41h-")
    try:
        config = config_from_string("/dev/null", "tub.port", "")
        broker = StorageFarmBroker(True, None, config)
        basedirs = []
        for i in range(3):
            peerid = base32.b2a(tagged_hash(b"peerid", b"%d" % i)[:20])
            b = os.path.join(tmp, "server%d" % i)
            os.makedirs(b)
            basedirs.append(b)
            ss = StorageServer(b, tagged_hash(b"nodeid", b"%d" % i)[:20])
            ann = {"anonymous-storage-FURL": "pb://%s@nowhere/fake" % str(peerid, "ascii"),
                   "permutation-seed-base32": peerid}
            broker.test_add_rref(peerid, LocalRef(FoolscapStorageServer(ss)), ann)

        sh = client_mod.SecretHolder(b"lease secret", b"convergence secret")
        nm = NodeMaker(broker, sh, None, None, None, {"k": 1, "n": 3},
                       SDMF_VERSION, client_mod.KeyGenerator())
        fake_client = FakeClient(nm)
        root = Resource()
        root.putChild(b"uri", URIHandler(fake_client))

        # a writeable directory; we only ever hand its READ-ONLY cap to the web API
        dirnode = yield nm.create_new_mutable_directory()
        rw_cap, ro_cap = dirnode.get_uri(), dirnode.get_readonly_uri()
        assert ro_cap.startswith(b"URI:DIR2-RO:"), ro_cap

        failures = []
        cases = [
            # control: immutable upload into a RO dir -- refused, nothing stored
            ("PUT  /uri/$RO_DIR/newfile            ", b"PUT", [b"uri", ro_cap, b"newfile"], {}, b"hello world", None),
            # same request but asking for a mutable file
            ("PUT  /uri/$RO_DIR/newfile?format=SDMF", b"PUT", [b"uri", ro_cap, b"newfile"], {b"format": b"SDMF"}, b"hello world", None),
            ("PUT  /uri/$RO_DIR/newfile?mutable=true", b"PUT", [b"uri", ro_cap, b"newfile2"], {b"mutable": b"true"}, b"hello world", None),
            ("POST /uri/$RO_DIR?t=upload&name=x&format=MDMF", b"POST", [b"uri", ro_cap],
             {b"t": b"upload", b"name": b"x", b"format": b"MDMF"}, b"", "FIELDS"),
        ]
        for (label, method, segs, args, body, fields) in cases:
            if fields == "FIELDS":
                fields = {"file": Field(b"posted contents", "x")}
            before = grid_snapshot(basedirs)
            code, rbody = yield do_request(root, method, segs, args, body, fields)
            after = grid_snapshot(basedirs)
            refused = code >= 400
            new = sorted(set(after) - set(before))
            changed = sorted(k for k in before if after.get(k) != before[k])
            names = sorted((yield nm.create_from_cap(rw_cap).list()).keys())
            print("%s -> HTTP %d (%s); new share files: %d, modified: %d; dir children: %r"
                  % (label, code, "NotWriteableError" if b"NotWriteableError" in rbody else "other",
                     len(new), len(changed), names))
            for p in new[:3]:
                print("      +", p)
            if not refused:
                failures.append("%s was NOT refused" % label.strip())
            if new or changed:
                failures.append("%s refused (HTTP %d) but the grid changed: %d new share files"
                                % (label.strip(), code, len(new)))
        if failures:
            print("\nVIOLATION of C41 ('is refused and changes nothing on the grid'):")
            for f in failures:
                print("  -", f)
            return 1
        print("no violation observed")
        return 0
    finally:
        shutil.rmtree(tmp, ignore_errors=True)


if __name__ == "__main__":
    result = []
    def _run(reactor):
        d = main(reactor)
        d.addTimeout(50, reactor)
        d.addCallback(result.append)
        return d
    try:
        task.react(_run)
    except SystemExit as e:
        if e.code not in (0, None):
            raise
    sys.exit(result[0] if result else 2)
