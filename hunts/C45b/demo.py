"""
C45 demo: immutable repair of a file whose (valid, hash-pinned) URI extension
block is not byte-identical to what today's Encoder writes.

The verifier/downloader explicitly accept UEBs that carry the deprecated
'plaintext_hash'/'plaintext_root_hash' fields (written by old Tahoe clients)
or lack optional ones.  The Repairer re-encodes with the current Encoder and
never compares the resulting UEB hash with the verify-cap it is repairing, so
the "repaired" shares carry a different UEB, fail validation under the
original cap, and check_and_repair nevertheless reports success/healthy.
"""
import sys, os, tempfile, shutil, hashlib
from twisted.internet import defer, task
from allmydata.util import cputhreadpool
cputhreadpool._DISABLED = True
from allmydata.storage.server import StorageServer, FoolscapStorageServer
from allmydata.storage_client import _StorageServer
from allmydata.immutable import upload, encode
from allmydata.immutable.filenode import ImmutableFileNode
from allmydata.monitor import Monitor
from allmydata.util import hashutil, consumer
from allmydata import uri

class Canary:
    def notifyOnDisconnect(self, *a, **kw): return object()
    def dontNotifyOnDisconnect(self, marker): pass

class LocalRef:
    """callRemote(name, ...) -> remote_<name>(...) on the real server objects"""
    def __init__(self, target): self.target = target
    def callRemote(self, name, *args, **kwargs):
        if name == "allocate_buckets":
            args = tuple(Canary() if type(a).__name__ == "Referenceable" else a for a in args)
            if "canary" in kwargs: kwargs["canary"] = Canary()
        def _call():
            return getattr(self.target, "remote_" + name)(*args, **kwargs)
        d = defer.maybeDeferred(_call)
        d.addCallback(self._wrap)
        return d
    def _wrap(self, res):
        if name_is_bucket(res): return LocalRef(res)
        if isinstance(res, dict):
            return {k: self._wrap(v) for k, v in res.items()}
        if isinstance(res, tuple):
            return tuple(self._wrap(v) for v in res)
        return res
    def notifyOnDisconnect(self, *a, **kw): return object()
    def dontNotifyOnDisconnect(self, m): pass
    def getPeer(self): return "local"

def name_is_bucket(o):
    return type(o).__name__ in ("FoolscapBucketWriter", "FoolscapBucketReader")

from zope.interface import implementer
from allmydata.interfaces import IDisplayableServer
@implementer(IDisplayableServer)
class Server:
    def __init__(self, i, basedir):
        self.serverid = hashlib.sha1(b"server%d" % i).digest()
        self.ss = StorageServer(os.path.join(basedir, "s%d" % i), self.serverid)
        self.fss = FoolscapStorageServer(self.ss)
        self.rref = LocalRef(self.fss)
        self.storage_server = _StorageServer(lambda: self.rref)
        self.version = self.fss.remote_get_version()
    def get_serverid(self): return self.serverid
    def get_permutation_seed(self): return self.serverid
    def get_lease_seed(self): return self.serverid
    def get_name(self): return b"srv-" + self.serverid.hex()[:6].encode()
    def get_longname(self): return self.serverid.hex()
    def get_nickname(self): return self.get_name()
    def get_version(self): return self.version
    def get_storage_server(self): return self.storage_server
    def get_rref(self): return self.rref
    def __repr__(self): return "<%s>" % self.get_name().decode()

class Broker:
    def __init__(self, servers): self.servers = servers
    def get_connected_servers(self): return list(self.servers)
    def get_servers_for_psi(self, si, for_upload=False):
        return sorted(self.servers, key=lambda s: hashlib.sha1(si + s.serverid).digest())
    def get_stub_server(self, sid):
        return [s for s in self.servers if s.serverid == sid][0]

class Secrets:
    def get_renewal_secret(self): return hashutil.my_renewal_secret_hash(b"lease")
    def get_cancel_secret(self): return hashutil.my_cancel_secret_hash(b"lease")
    def get_convergence_secret(self): return b"conv"

class Terminator:
    def register(self, c): pass

K, N = 3, 10

_RealEncoder = encode.Encoder
class LegacyEncoder(_RealEncoder):
    """Stands in for an old Tahoe client: same encoding, but the UEB also
    carries the (since deprecated) plaintext hashes."""
    LEGACY = {"plaintext_hash": b"\x11" * 32, "plaintext_root_hash": b"\x22" * 32}
    def get_uri_extension_size(self):
        extra = uri.pack_extension(self.LEGACY)
        return _RealEncoder.get_uri_extension_size(self) + len(extra)
    def send_uri_extension_to_all_shareholders(self):
        self.uri_extension_data.update(self.LEGACY)
        return _RealEncoder.send_uri_extension_to_all_shareholders(self)

def sharedata(path):
    # share contents without the lease records the server appends
    from allmydata.storage.immutable import ShareFile
    return ShareFile(path).read_share_data(0, 10**7)

def share_files(servers, si):
    from allmydata.storage.common import storage_index_to_dir
    out = {}
    for s in servers:
        d = os.path.join(s.ss.sharedir, storage_index_to_dir(si))
        if os.path.isdir(d):
            for fn in os.listdir(d):
                out[(s.get_name(), int(fn))] = os.path.join(d, fn)
    return out

@defer.inlineCallbacks
def main(reactor, legacy):
    print('--- %s ---' % ('file uploaded by an old client (UEB also has plaintext hashes)' if legacy else 'control: file uploaded by the current encoder'))
    basedir = tempfile.mkdtemp()
    try:
        servers = [Server(i, basedir) for i in range(N)]
        sb, sh = Broker(servers), Secrets()
        data = os.urandom(5000)

        # 1. the "old client" uploads the file (real uploader, real encoder)
        u = upload.Data(data, convergence=b"conv")
        u.set_default_encoding_parameters({"k": K, "happy": 1, "n": N,
                                            "max_segment_size": 1500})
        real_Encoder = encode.Encoder
        if legacy: encode.Encoder = LegacyEncoder
        try:
            ur = yield upload.CHKUploader(sb, sh).start(upload.EncryptAnUploadable(u))
        finally:
            encode.Encoder = real_Encoder
        vcap = uri.from_string(ur.get_verifycapstr())
        key = yield u.get_encryption_key()
        readcap = uri.CHKFileURI(key, vcap.uri_extension_hash, K, N, len(data))
        si = vcap.get_storage_index()

        def node():
            return ImmutableFileNode(readcap, sb, sh, Terminator(), None)

        # 2. sanity: the file is a perfectly good file for today's code
        cr = yield node().check(Monitor(), verify=True)
        got = yield consumer.download_to_data(node())
        print("before: verify healthy=%s good=%d corrupt=%d, download ok=%s" % (
            cr.is_healthy(), cr.get_share_counter_good(),
            len(cr.get_corrupt_shares()), got == data))
        assert cr.is_healthy() and got == data

        # 3. lose 4 of the 10 shares (6 >= k remain)
        files = share_files(servers, si)
        original = {}
        for (sname, shnum), path in sorted(files.items(), key=lambda x: x[0][1]):
            if shnum in (0, 1, 2, 3):
                os.unlink(path)
            else:
                original[path] = sharedata(path)

        # 4. check-and-repair (verify=True) using only the verify cap
        crr = yield node().check_and_repair(Monitor(), verify=True)
        post = crr.get_post_repair_results()
        print("repair: attempted=%s successful=%s post healthy=%s post good=%d" % (
            crr.get_repair_attempted(), crr.get_repair_successful(),
            post.is_healthy(), post.get_share_counter_good()))

        untouched = all(sharedata(p) == c for p, c in original.items())
        print("existing good shares untouched: %s" % untouched)

        # 5. what does an independent verification say now?
        cr2 = yield node().check(Monitor(), verify=True)
        print("after : verify healthy=%s good=%d corrupt=%s" % (
            cr2.is_healthy(), cr2.get_share_counter_good(),
            sorted(sh_ for (_s, _si, sh_) in cr2.get_corrupt_shares())))

        # 6. can the file be read from the repaired shares alone?
        for path in original:
            os.unlink(path)
        try:
            got = yield consumer.download_to_data(node())
            alone = (got == data)
            why = ""
        except Exception as e:
            alone, why = False, type(e).__name__
        print("read from repaired shares alone: %s %s" % (alone, why))

        bad = (crr.get_repair_successful() and post.is_healthy()
               and (not cr2.is_healthy() or not alone))
        if bad:
            print("VIOLATION: repair reported success/healthy, but the shares it "
                  "wrote do not validate under the original cap")
            return 1
        return 0
    finally:
        shutil.rmtree(basedir, ignore_errors=True)

def run(reactor):
    d = main(reactor, False)
    d.addCallback(lambda rc: main(reactor, True) if rc == 0 else 3)
    d.addTimeout(50, reactor)
    def _done(rc):
        global RC; RC = rc
    d.addCallback(_done)
    return d

RC = 2
try:
    task.react(run)
except SystemExit as e:
    if e.code not in (0, None):
        raise
sys.exit(RC)
