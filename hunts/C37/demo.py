"""C37 hunt demo: Spans in-place subtraction with an aliased operand (s -= s)
does not behave like a set of integers.  Exercises the real
allmydata.util.spans.Spans; exits 1 when the violation occurs."""
import random, sys
from allmydata.util.spans import Spans

def as_set(s):
    return set(s.each())

failures = []

# 1. minimal fixed case
s = Spans([(0, 1), (2, 1), (4, 1), (6, 1)])
ref = {0, 2, 4, 6}
s -= s          # Spans.__isub__(self, self)
ref -= ref      # python set: empties
if as_set(s) != ref:
    failures.append("fixed: {0,2,4,6} -= itself -> %s (reference set: %s)"
                    % (s.dump(), sorted(ref)))

# control: same subtraction through a copy is correct
c = Spans([(0, 1), (2, 1), (4, 1), (6, 1)])
c -= Spans(c)
assert as_set(c) == set(), c.dump()

# 2. seeded sequences (<=200 ops, offsets 0..300), step-by-step vs a set
for seed in range(50):
    r = random.Random(seed)
    s = Spans(); ref = set()
    for step in range(200):
        op = r.choice(["add", "add", "remove", "isub_self"])
        st = r.randrange(0, 300); ln = r.randrange(1, 10)
        if op == "add":
            s.add(st, ln); ref |= set(range(st, st+ln))
        elif op == "remove":
            s.remove(st, ln); ref -= set(range(st, st+ln))
        else:
            s -= s; ref -= ref
        if as_set(s) != ref:
            failures.append("seed %d step %d op %s: Spans=%s reference=%s"
                            % (seed, step, op, s.dump(), sorted(ref)))
            break
    if len(failures) >= 3:
        break

if failures:
    print("VIOLATION: Spans.__isub__ with aliased operand leaves elements behind")
    for f in failures:
        print("  " + f)
    sys.exit(1)
print("ok: no divergence")
sys.exit(0)
