"""
C12 hunt demo.  Two clients call MutableFileNode.modify() on the same mutable
file at the same time (healthy 10-server grid, k=3, N=10, one share per server).
Real StorageServer, ServermapUpdater, Retrieve, Publish and filenode code; only
the wire is faked so that the delivery order of remote calls can be chosen.

Order: both survey v1; all of B's writes land first (B succeeds); then A's
writes land (every test vector fails -> Publish raises UncoordinatedWriteError);
_modify_and_retry re-surveys and retries.  A must then either converge (final
contents hold both changes) or report UncoordinatedWriteError.  Exit 1 if A
reports some other error instead.
"""
import os, sys, shutil, tempfile
from twisted.internet import defer, reactor, task
from allmydata.util import cputhreadpool
cputhreadpool._DISABLED = True
from allmydata.storage.server import StorageServer
from allmydata.mutable.filenode import MutableFileNode
from allmydata.mutable.common import UncoordinatedWriteError
from allmydata.interfaces import SDMF_VERSION, MDMF_VERSION
from allmydata.crypto import rsa
from allmydata import uri


class Sched:
    """Holds remote calls until the test releases them."""
    def __init__(self):
        self.pending, self.auto = [], True
    def call(self, label, thunk):
        if self.auto:
            return defer.maybeDeferred(thunk)
        d = defer.Deferred()
        self.pending.append((label, thunk, d))
        return d
    def deliver(self, i):
        label, thunk, d = self.pending.pop(i)
        defer.maybeDeferred(thunk).chainDeferred(d)
    def find(self, pred):
        for i, p in enumerate(self.pending):
            if pred(p[0]):
                return i

class Wire:  # IStorageServer as used by the mutable code
    def __init__(self, ss, sched, who, name):
        self.ss, self.sched, self.who, self.name = ss, sched, who, name
    def slot_readv(self, si, shares, readv):
        return self.sched.call((self.who, "read", self.name),
                               lambda: self.ss.slot_readv(si, shares, readv))
    def slot_testv_and_readv_and_writev(self, si, secrets, tw, rv):
        tw = {k: ([(o, l, b"eq", s) for (o, l, s) in v[0]], v[1], v[2]) for k, v in tw.items()}
        return self.sched.call((self.who, "write", self.name),
                               lambda: self.ss.slot_testv_and_readv_and_writev(si, secrets, tw, rv))
    def advise_corrupt_share(self, *a): return defer.succeed(None)
    def add_lease(self, *a): return defer.succeed(None)

class Server:
    def __init__(self, ss, sid, sched, who):
        self.sid = sid
        self.wire = Wire(ss, sched, who, self.get_name())
    def get_serverid(self): return self.sid
    def get_name(self): return b"s%d" % self.sid[0]
    get_longname = get_name
    def get_storage_server(self): return self.wire
    def get_lease_seed(self): return self.sid
    def get_foolscap_write_enabler_seed(self): return self.sid
    def upload_permitted(self): return True

class Broker:
    def __init__(self, servers): self.servers = servers
    def get_servers_for_psi(self, si): return list(self.servers)

class Secrets:
    def get_renewal_secret(self): return b"r" * 32
    def get_cancel_secret(self): return b"c" * 32

class Grid:
    def __init__(self, n):
        self.base, self.sched = tempfile.mkdtemp(prefix="c12h"), Sched()
        self.ss = [(bytes([i + 1]) * 20, StorageServer(os.path.join(self.base, "s%d" % i), bytes([i + 1]) * 20))
                   for i in range(n)]
    def node(self, who, k, n, cap=None):
        b = Broker([Server(ss, sid, self.sched, who) for sid, ss in self.ss])
        nd = MutableFileNode(b, Secrets(), {"k": k, "n": n}, None)
        return nd.init_from_cap(uri.from_string(cap)) if cap else nd

@defer.inlineCallbacks
def settle(n=4):
    for _ in range(n):
        yield task.deferLater(reactor, 0, lambda: None)

KEYS = []
@defer.inlineCallbacks
def scenario(version, name):
    if not KEYS:
        priv, pub = rsa.create_signing_keypair(2048)
        KEYS.append((pub, priv))
    g = Grid(10)
    creator = g.node("C", 3, 10)
    yield creator.create_with_keys(KEYS[0], b"base", version=version)
    cap = creator.get_uri()
    A, B = g.node("A", 3, 10, cap), g.node("B", 3, 10, cap)
    res, ucw_seen = {}, []
    def backoff(node, f):          # no delay; retry at once (BackoffAgent would wait seconds)
        ucw_seen.append(f.value.__class__.__name__)
        return defer.succeed(None)
    def modifier(tag):
        return lambda old, servermap, first_time: old if tag in old else old + tag
    g.sched.auto = False
    A.modify(modifier(b"+A"), backoff).addBoth(lambda r: res.__setitem__("A", r))
    B.modify(modifier(b"+B"), backoff).addBoth(lambda r: res.__setitem__("B", r))
    yield settle()
    for step in range(5000):
        if not g.sched.pending:
            break
        i = g.sched.find(lambda l: l[1] == "read")          # surveys/downloads first,
        if i is None:
            i = g.sched.find(lambda l: l[0] == "B")          # then B's writes,
        if i is None and "B" not in res:
            yield settle()                                   # (A's writes wait until B is done)
            continue
        g.sched.deliver(0 if i is None else i)               # then A's writes
        yield settle()
    yield settle(8)
    g.sched.auto = True
    final = yield g.node("R", 3, 10, cap).download_best_version()
    shutil.rmtree(g.base, ignore_errors=True)
    def show(r):
        return "%s: %s" % (r.value.__class__.__name__, str(r.value)[:60]) if hasattr(r, "value") else "success"
    print("[%s] B.modify -> %s" % (name, show(res.get("B"))))
    print("[%s] A's Publish raised (seen by backoffer): %s" % (name, ucw_seen))
    print("[%s] A.modify -> %s" % (name, show(res.get("A"))))
    print("[%s] final contents: %r" % (name, final))
    a = res.get("A")
    if hasattr(a, "value"):
        return isinstance(a.value, UncoordinatedWriteError)
    return b"+A" in final and b"+B" in final

@defer.inlineCallbacks
def main(reactor):
    ok = True
    for version, name in ((SDMF_VERSION, "SDMF"), (MDMF_VERSION, "MDMF")):
        good = yield scenario(version, name)
        ok = ok and good
    if not ok:
        print("VIOLATION: the writer that lost the race met a different version, but its retry "
              "(_modify_and_retry) neither converged nor reported UncoordinatedWriteError")
        os._exit(1)
    print("ok: loser converged or reported UncoordinatedWriteError")

task.react(main)
