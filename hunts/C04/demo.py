"""C04 demo: stopping one immutable read while its segment is being decoded
(zfec decode runs in the CPU thread pool) makes an unrelated concurrent read
on the same node fail with AssertionError.

Everything below the fake remote references is the real code: Encoder +
WriteBucketProxy write the shares into bytearrays, ImmutableFileNode /
DownloadNode / Segmentation / SegmentFetcher / Share / CRSDecoder read them
back.  The only instrumentation is a wrapper around the third-party
zfec.Decoder which, from inside the decoding thread, lets the reactor thread
run one callback before the decode proceeds -- i.e. it pins down one legal
schedule of "the reactor does something while a segment is being decoded".
"""
import sys, random, types
from zope.interface import implementer
from twisted.internet import defer, task, reactor
from twisted.internet.interfaces import IConsumer
from twisted.internet.threads import blockingCallFromThread
from foolscap.api import fireEventually
import zfec
import allmydata.codec
from allmydata import uri, hashtree
from allmydata.immutable import encode, upload, layout
from allmydata.immutable.filenode import ImmutableFileNode

HOOK = []   # one-shot callbacks run in the reactor thread during a decode

class HookedDecoder:
    def __init__(self, k, n):
        self._real = zfec.Decoder(k, n)
    def decode(self, shares, ids):          # runs in the TahoeCPU thread pool
        if HOOK:
            blockingCallFromThread(reactor, HOOK.pop())
        return self._real.decode(shares, ids)
allmydata.codec.zfec = types.SimpleNamespace(Encoder=zfec.Encoder,
                                             Decoder=HookedDecoder)

VERSION = {b"http://allmydata.org/tahoe/protocols/storage/v1":
           {b"tolerates-immutable-read-overrun": True}}

class MemBucket:        # fake RemoteReference to a bucket writer/reader
    def __init__(self):
        self.data = bytearray()
    def callRemote(self, name, *args):
        d = fireEventually()
        d.addCallback(lambda ign: getattr(self, "remote_" + name)(*args))
        return d
    def remote_write(self, offset, data):
        if len(self.data) < offset + len(data):
            self.data.extend(b"\x00" * (offset + len(data) - len(self.data)))
        self.data[offset:offset + len(data)] = data
    def remote_close(self):
        pass
    def remote_read(self, offset, length):
        return bytes(self.data[offset:offset + length])
    def remote_advise_corrupt_share(self, reason):
        print("unexpected advise_corrupt_share", reason)

class FakeServer:       # stands in for NativeStorageServer + IStorageServer
    def __init__(self, i, buckets):
        self.i, self.buckets = i, buckets
    def get_serverid(self): return b"server%02d" % self.i + b"x" * 12
    def get_name(self): return b"srv%02d" % self.i
    def get_longname(self): return self.get_name()
    def get_version(self): return VERSION
    def get_storage_server(self): return self
    def get_buckets(self, si):
        return fireEventually().addCallback(lambda ign: dict(self.buckets))

class FakeBroker:
    def __init__(self, servers): self.servers = servers
    def get_servers_for_psi(self, si, for_upload=False): return list(self.servers)

@defer.inlineCallbacks
def make_file(data, k=3, n=10, segsize=1024):
    u = upload.Data(data, convergence=b"c" * 16)
    u.set_default_encoding_parameters({"k": k, "happy": 1, "n": n,
                                       "max_segment_size": segsize})
    eu = upload.EncryptAnUploadable(u)
    e = encode.Encoder()
    yield e.set_encrypted_uploadable(eu)
    nsh = len(hashtree.IncompleteHashTree(n).needed_hashes(0, include_leaf=True))
    buckets, landlords, servermap = {}, {}, {}
    for shnum in range(n):
        buckets[shnum] = b = MemBucket()
        landlords[shnum] = layout.make_write_bucket_proxy(
            b, FakeServer(shnum, {}), e.get_param("share_size"),
            e.get_param("block_size"), e.get_param("num_segments"), nsh,
            e.get_uri_extension_size())
        servermap[shnum] = set([b"server%02d" % shnum])
    e.set_shareholders(landlords, servermap)
    verifycap = yield e.start()
    key = yield u.get_encryption_key()
    cap = uri.CHKFileURI(key, verifycap.uri_extension_hash, k, n, len(data))
    servers = [FakeServer(i, {i: buckets[i]}) for i in range(n)]
    return ImmutableFileNode(cap, FakeBroker(servers), None, None, None)

@implementer(IConsumer)
class Collector:
    def __init__(self):
        self.chunks, self.producer = [], None
    def registerProducer(self, p, streaming): self.producer = p
    def unregisterProducer(self): self.producer = None
    def write(self, data): self.chunks.append(data)
    def value(self): return b"".join(self.chunks)

DATA = bytes(random.Random(1).randrange(256) for _ in range(3500))
# k=3, max_segment_size=1024 -> segment size 1026, 4 segments
RA, RB, RC = (0, 10), (2000, 10), (5, 10)   # A,C in segment 0; B in segment 1

@defer.inlineCallbacks
def scenario(stop_a):
    node = yield make_file(DATA)
    warm = Collector()
    yield node.read(warm, 0, None)          # sanity + the node learns the UEB
    assert warm.value() == DATA
    cA, cB, cC = Collector(), Collector(), Collector()
    results, ds = {}, []
    def start(name, c, rng):
        d = node.read(c, rng[0], rng[1])
        d.addBoth(lambda r: results.__setitem__(name, r))
        ds.append(d)
    def during_decode_of_segment_0():       # reactor thread, decode in flight
        if stop_a:
            cA.producer.stopProducing()     # A's client went away
        start("C", cC, RC)                  # a new, unrelated read arrives
    HOOK.append(during_decode_of_segment_0)
    start("A", cA, RA)
    start("B", cB, RB)
    yield task.deferLater(reactor, 0.5, lambda: None)
    yield defer.DeferredList(ds)
    problems = []
    for name, c, rng in (("B", cB, RB), ("C", cC, RC)):
        exp = DATA[rng[0]:rng[0] + rng[1]]
        r = results.get(name)
        if r is not c:
            problems.append("read %s [%d:+%d] failed: %r" % (name, rng[0], rng[1], r))
        elif c.value() != exp:
            problems.append("read %s returned wrong data" % name)
    if not stop_a:
        if cA.value() != DATA[RA[0]:RA[0] + RA[1]]:
            problems.append("read A wrong")
    return results.get("A"), problems

RESULT = {}

@defer.inlineCallbacks
def main(reactor):
    reactor.callLater(45, lambda: (print("TIMEOUT"), reactor.stop()))
    a, problems = yield scenario(stop_a=False)
    print("control (A not stopped, C started during decode): problems =", problems)
    RESULT["control"] = problems
    a, problems = yield scenario(stop_a=True)
    print("A stopped during decode of its segment: A ->", a)
    print("  problems with the OTHER reads =", problems)
    RESULT["stopped"] = problems

try:
    task.react(main)
except SystemExit:
    pass
if RESULT.get("control") != []:
    print("harness problem (control run not clean)"); sys.exit(2)
if RESULT.get("stopped"):
    print("VIOLATION: stopping read A disturbed another read on the same node")
    sys.exit(1)
print("no violation observed")
sys.exit(0)
