"""
C30 hunt demo: the HTTP storage server accepts *malformed* X-Tahoe-Authorization
secrets (values that are not base64 at all) and acts on them (allocates buckets,
adds leases, creates mutable slots) instead of answering 400 without side effects.

Real code exercised: allmydata.storage.http_server.HTTPServer behind a real
twisted.web Site/HTTPChannel fed raw HTTP bytes, on a real StorageServer.
Run: PYTHONPATH=/tmp/wt/C30h/src:/tmp/shims /venv/bin/python demo.py
Exit 1 = violation observed, 0 = not observed.
"""
import os, sys, tempfile, shutil
from base64 import b64encode

from allmydata.util import cputhreadpool
cputhreadpool._DISABLED = True

import twisted.internet._producer_helpers as _ph
from twisted.internet.task import Cooperator, Clock
from twisted.internet.testing import StringTransport
from twisted.web.server import Site

from allmydata.storage.server import StorageServer
from allmydata.storage.http_server import HTTPServer
from allmydata.util import cbor
from allmydata.util.base32 import b2a

# Drive twisted.web's pull->push producer adapter without a running reactor.
_pending = []
class _Call:
    def __init__(self, f): self.f, self.cancelled = f, False
    def cancel(self): self.cancelled = True
def _sched(f):
    c = _Call(f); _pending.append(c); return c
_ph.cooperate = Cooperator(scheduler=_sched,
                           terminationPredicateFactory=lambda: (lambda: False)).cooperate
def _pump():
    while _pending:
        c = _pending.pop(0)
        if not c.cancelled:
            c.f()

SWISS = b"S" * 32
tmp = tempfile.mkdtemp()
clock = Clock()
ss = StorageServer(tmp, b"\x00" * 20, clock=clock)
http = HTTPServer(clock, ss, SWISS)
site = Site(http.get_resource())

def request(method, path, headers, body=b""):
    proto = site.buildProtocol(None)
    tr = StringTransport()
    proto.makeConnection(tr)
    raw = method + b" " + path + b" HTTP/1.1\r\nHost: x\r\nConnection: close\r\n"
    raw += b"Content-Length: %d\r\n" % len(body)
    for k, v in headers:
        raw += k + b": " + v + b"\r\n"
    proto.dataReceived(raw + b"\r\n" + body)
    _pump()
    head, _, rest = tr.value().partition(b"\r\n\r\n")
    return int(head.split(b" ")[1]), rest

def state():
    files = {}
    for root, dirs, fs in os.walk(tmp):
        for d in dirs:
            files[os.path.relpath(os.path.join(root, d), tmp) + "/"] = None
        for f in fs:
            p = os.path.join(root, f)
            with open(p, "rb") as fh:
                files[os.path.relpath(p, tmp)] = fh.read()
    ups = {si: dict(u.upload_secrets) for si, u in http._uploads._uploads.items()}
    return files, ups

AUTH = (b"Authorization", b"Tahoe-LAFS " + b64encode(SWISS))
XA = b"X-Tahoe-Authorization"

def garble(b64):
    """Turn a base64 string into something that is NOT base64: sprinkle
    characters outside the base64 alphabet through it."""
    out = b"!*"
    for i in range(0, len(b64), 3):
        out += b64[i:i + 3] + b"(~)"
    return out

failures = []

def expect_rejected(label, method, path, headers, body=b""):
    before = state()
    code, resp = request(method, path, headers, body)
    after = state()
    changed = before != after
    print("%-34s -> HTTP %d, state changed: %s" % (label, code, changed))
    if code != 400 or changed:
        new = sorted(set(after[0]) - set(before[0]))
        failures.append("%s: HTTP %d (expected 400), state changed=%s %s"
                        % (label, code, changed, new[:3]))

try:
    renew, cancel, upload, enabler = b"r" * 32, b"c" * 32, b"upload-secret-1", b"w" * 32
    si1, si2 = b2a(b"\x01" * 16), b2a(b"\x02" * 16)

    # sanity: a secret that is rubbish in a way b64decode does notice is refused
    expect_rejected("control: 'upload-secret x'", b"POST",
                    b"/storage/v1/immutable/" + si1,
                    [AUTH, (XA, b"lease-renew-secret " + b64encode(renew)),
                     (XA, b"lease-cancel-secret " + b64encode(cancel)),
                     (XA, b"upload-secret x")],
                    cbor.dumps({"share-numbers": {0}, "allocated-size": 4}))
    assert not failures, failures

    # 1. allocate buckets with three secrets none of which is valid base64
    bad_secrets = [
        (XA, b"lease-renew-secret " + garble(b64encode(renew))),
        (XA, b"lease-cancel-secret " + garble(b64encode(cancel))),
        (XA, b"upload-secret " + garble(b64encode(upload))),
    ]
    print("malformed header example:", bad_secrets[2][1])
    expect_rejected("allocate, non-base64 secrets", b"POST",
                    b"/storage/v1/immutable/" + si1, [AUTH] + bad_secrets,
                    cbor.dumps({"share-numbers": {0}, "allocated-size": 4}))

    # 2. write the share with a malformed upload secret
    expect_rejected("PATCH, non-base64 upload-secret", b"PATCH",
                    b"/storage/v1/immutable/" + si1 + b"/0",
                    [AUTH, bad_secrets[2], (b"Content-Range", b"bytes 0-3/4")], b"DATA")

    # 3. add a lease with malformed lease secrets
    expect_rejected("add lease, non-base64 secrets", b"PUT",
                    b"/storage/v1/lease/" + si1,
                    [AUTH,
                     (XA, b"lease-renew-secret " + garble(b64encode(b"R" * 32))),
                     (XA, b"lease-cancel-secret " + garble(b64encode(b"C" * 32)))])

    # 4. create a mutable slot with a malformed write enabler
    rtw = cbor.dumps({"test-write-vectors": {0: {"test": [],
                      "write": [{"offset": 0, "data": b"mutable"}], "new-length": None}},
                      "read-vector": []})
    expect_rejected("mutable write, non-base64 enabler", b"POST",
                    b"/storage/v1/mutable/" + si2 + b"/read-test-write",
                    [AUTH, (XA, b"write-enabler " + garble(b64encode(enabler))),
                     bad_secrets[0], bad_secrets[1]], rtw)
finally:
    shutil.rmtree(tmp, ignore_errors=True)

if failures:
    print("\nVIOLATION of C30 (malformed secrets must be rejected without side effects):")
    for f in failures:
        print("  -", f)
    sys.exit(1)
print("no violation observed")
sys.exit(0)
