"""C47 demo: an in-place MDMF update (Publish.update) done through a node whose
default k differs from the file's k reports success, yet no share of the new
version is usable afterwards (and the old version has been overwritten).

No fault is injected at all: 10 healthy servers, every write acknowledged.
Run:  PYTHONPATH=/tmp/wt/C47h/src:/tmp/shims /venv/bin/python _hunt/demo.py
"""
import os, sys, hashlib, tempfile, shutil
from twisted.internet import defer
from twisted.python.failure import Failure
import allmydata.util.cputhreadpool as ctp
ctp._DISABLED = True
import foolscap.eventual as fe
from allmydata.storage.server import StorageServer
from allmydata.mutable.filenode import MutableFileNode
from allmydata.mutable.publish import MutableData
from allmydata.mutable.layout import MDMF_VERSION
from allmydata.client import SecretHolder
from allmydata.crypto import rsa

PENDING = []          # remote calls not yet delivered

def pump():
    """deliver eventual-sends and remote calls until nothing is left"""
    while True:
        while fe._theSimpleQueue._events:
            fe._theSimpleQueue._turn()
        if not PENDING:
            return
        PENDING.pop(0)()

def run(d):
    out = []
    d.addBoth(out.append)
    pump()
    assert out, "operation never finished"
    return out[0]

class FakeIStorageServer:
    """what NativeStorageServer.get_storage_server() returns, backed by a real
    allmydata.storage.server.StorageServer; answers arrive in a later turn"""
    def __init__(self, ss):
        self.ss = ss
    def _later(self, fn):
        d = defer.Deferred()
        def deliver():
            try:
                res = fn()
            except Exception:
                d.errback(Failure())
            else:
                d.callback(res)
        PENDING.append(deliver)
        return d
    def slot_testv_and_readv_and_writev(self, si, secrets, tw, rv):
        wire = {shnum: ([(o, l, b"eq", s) for (o, l, s) in testv], list(datav), newlen)
                for shnum, (testv, datav, newlen) in tw.items()}
        return self._later(lambda: self.ss.slot_testv_and_readv_and_writev(si, secrets, wire, rv))
    def slot_readv(self, si, shares, readv):
        return self._later(lambda: self.ss.slot_readv(si, shares, readv))
    def advise_corrupt_share(self, *a, **kw):
        return defer.succeed(None)

class FakeServer:
    def __init__(self, i, basedir):
        self.i = i
        self.serverid = hashlib.sha1(b"server%d" % i).digest()
        self.ss = StorageServer(os.path.join(basedir, "s%d" % i), self.serverid)
        self.iss = FakeIStorageServer(self.ss)
    def get_serverid(self): return self.serverid
    def get_permutation_seed(self): return self.serverid
    def get_name(self): return b"srv%d" % self.i
    def get_longname(self): return b"server%d" % self.i
    def get_nickname(self): return "srv%d" % self.i
    def get_lease_seed(self): return self.serverid
    def get_foolscap_write_enabler_seed(self): return self.serverid
    def get_storage_server(self): return self.iss
    def upload_permitted(self): return True
    def is_connected(self): return True

class FakeBroker:
    def __init__(self, servers): self.servers = servers
    def get_servers_for_psi(self, si, for_upload=False):
        return sorted(self.servers, key=lambda s: hashlib.sha1(si + s.serverid).digest())
    def get_connected_servers(self): return frozenset(self.servers)
    def get_known_servers(self): return frozenset(self.servers)

def main():
    basedir = tempfile.mkdtemp(prefix="c47demo")
    try:
        servers = [FakeServer(i, basedir) for i in range(10)]
        broker = FakeBroker(servers)
        secrets = SecretHolder(b"lease secret", b"convergence")
        def newnode(k, n):
            return MutableFileNode(broker, secrets, {"k": k, "n": n, "happy": 1}, None)
        priv, pub = rsa.create_signing_keypair(2048)

        # client A (shares.needed = 4) creates a 3-segment MDMF file
        K_FILE, K_OTHER, N = 4, 2, 10
        a = newnode(K_FILE, N)
        data0 = os.urandom(300000)
        r = run(a.create_with_keys((pub, priv), data0, version=MDMF_VERSION))
        assert not isinstance(r, Failure), r

        # client B (shares.needed = 2) opens the same cap and changes 10 bytes
        b = newnode(K_OTHER, N).init_from_cap(a._uri)
        mv = run(b.get_best_mutable_version())
        assert not isinstance(mv, Failure), mv
        print("file is %d-of-%d, seqnum %d; updating node defaults to %d-of-%d"
              % (mv._version[5], mv._version[6], mv._version[0],
                 b.get_required_shares(), b.get_total_shares()))
        r = run(mv.update(MutableData(b"X" * 10), 5))
        if isinstance(r, Failure):
            print("update reported an error (fine for C47):", r.value)
            return 0
        print("update (Publish.update) reported SUCCESS")

        # anybody (here: a fresh node of client A) now tries to read the file
        expected = data0[:5] + b"X" * 10 + data0[15:]
        c = newnode(K_FILE, N).init_from_cap(a._uri)
        got = run(c.download_best_version())
        if isinstance(got, bytes) and got == expected:
            print("new version is recoverable: OK")
            return 0
        if isinstance(got, Failure):
            print("download after the successful update FAILED: %s: %s"
                  % (got.type.__name__, str(got.value)[:160]))
        else:
            print("download returned wrong bytes (old contents: %s)" % (got == data0))
        print("VIOLATION of C47: publish reported success but fewer than k "
              "usable shares of the new version exist (the file is lost)")
        return 1
    finally:
        shutil.rmtree(basedir, ignore_errors=True)

if __name__ == "__main__":
    sys.exit(main())
