"""
C48 demo: sizes that the node prints with abbreviate_space() do not parse back
with parse_abbreviated_size() (the parser of [storage]reserved_space).

Part 1: print-then-parse on random sizes >= 1024 whose two-decimal abbreviation
        is EXACT (so "same value" is unambiguous, no rounding involved).
Part 2: end-to-end: a node configured with the create-node default
        "reserved_space = 1G" prints "1.00 GB" on its storage status page;
        putting that printed string back into tahoe.cfg makes the real
        _Client.get_anonymous_storage_server() refuse to build the server.
Exit 1 if the violation occurs, 0 otherwise.
"""
import sys, random, tempfile
from twisted.application import service
from allmydata.util.abbreviate import abbreviate_space, parse_abbreviated_size
from allmydata import client
from allmydata.web.storage import StorageStatusElement

failures = []

# ---- Part 1: random exact sizes through print-then-parse -------------------
rng = random.Random(48)
SI = {"k": 1000, "M": 1000**2, "G": 1000**3, "T": 1000**4, "P": 1000**5, "E": 1000**6}
BIN = {"k": 1024, "M": 1024**2, "G": 1024**3, "T": 1024**4, "P": 1024**5, "E": 1024**6}
samples = []
for _ in range(300):
    # SI: n = hundredths * unit / 100 is an integer and prints exactly as "x.yz <unit>B"
    u = rng.choice(list(SI))
    hundredths = rng.randrange(103, 99999)      # 1.03 .. 999.99 units
    samples.append((hundredths * SI[u] // 100, True))
    # binary: whole and quarter multiples of the unit are exact in two decimals
    u = rng.choice(list(BIN))
    quarters = rng.randrange(4, 4 * 1000)
    samples.append((quarters * BIN[u] // 4, False))

tested = bad = 0
first = []
for n, si in samples:
    printed = abbreviate_space(n, SI=si)
    tested += 1
    try:
        back = parse_abbreviated_size(printed)
    except ValueError as e:
        bad += 1
        if len(first) < 5:
            first.append("  %d -> %r -> ValueError(%s)" % (n, printed, e))
        continue
    if back != n:
        bad += 1
        if len(first) < 5:
            first.append("  %d -> %r -> %r" % (n, printed, back))
print("part 1: %d of %d exactly-representable sizes did not survive print-then-parse" % (bad, tested))
for l in first:
    print(l)
if bad:
    failures.append("print-then-parse")

# control: the documented spellings still work (so the harness is not broken)
assert parse_abbreviated_size("100 M") == parse_abbreviated_size("100000kb") == 100000000
assert parse_abbreviated_size("1024 Ki") == parse_abbreviated_size("1MiB") == 1048576
assert parse_abbreviated_size(abbreviate_space(1023)) == 1023

# ---- Part 2: through tahoe.cfg and the real storage-server construction ----
class FakeNode(service.MultiService):
    """Just enough of _Client for the real get_anonymous_storage_server()."""
    STOREDIR = "storage"
    nodeid = b"n" * 20
    stats_provider = None
    def __init__(self, cfgtext):
        service.MultiService.__init__(self)
        self.basedir = tempfile.mkdtemp(prefix="c48h")
        self.config = client.config_from_string(self.basedir, "tub.port", cfgtext)
    def get_config(self, *a, **kw):
        return self.config.get_config(*a, **kw)

def build(reserved):
    node = FakeNode("[node]\nnickname = x\n[storage]\nenabled = true\n"
                    "reserved_space = %s\n" % reserved)
    return client._Client.get_anonymous_storage_server(node)

ss = build("1G")                      # what `tahoe create-node` writes
assert ss.reserved_space == 10**9, ss.reserved_space
elem = StorageStatusElement(ss, "x")
printed = elem.render_abbrev_space(ss.get_stats()["storage_server.reserved_space"])
print("part 2: node with reserved_space=1G prints reserved space as %r" % printed)
try:
    ss2 = build(printed)
    print("        tahoe.cfg reserved_space = %s -> %r" % (printed, ss2.reserved_space))
    if ss2.reserved_space != ss.reserved_space:
        failures.append("cfg round trip changed value")
except ValueError as e:
    print("        tahoe.cfg reserved_space = %s -> ValueError: %s" % (printed, e))
    failures.append("cfg round trip rejected")

# "a number, with an optional ... scale suffix" (configuration.rst): decimals
for spelled, want in [("1.5G", 1500000000), ("0.5 GiB", 512 * 1024**2), ("2.5 MB", 2500000)]:
    try:
        got = parse_abbreviated_size(spelled)
    except ValueError as e:
        got = "ValueError(%s)" % e
    print("        parse_abbreviated_size(%r) = %s (meaning %d)" % (spelled, got, want))

if failures:
    print("VIOLATION of C48: " + ", ".join(failures))
    sys.exit(1)
print("ok: every printed size parsed back to the same value")
sys.exit(0)
