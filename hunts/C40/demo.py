"""
C40 demo: a Range header that cannot be parsed must be ignored (full file, 200).
A Range header whose value is not valid UTF-8 (pure garbage, e.g. b"bytes=\\xff-5")
instead makes the real web API answer 500 Internal Server Error, for GET and HEAD,
for literal, immutable and mutable files.

Run:  PYTHONPATH=/tmp/wt/C40h/src:/tmp/shims /venv/bin/python /tmp/wt/C40h/_hunt/demo.py
Uses the project's own in-process no-network grid (real client, real storage servers,
real web frontend listening on loopback) and twisted's HTTP Agent.
"""
import sys, types, os, tempfile

# allmydata.test.no_network drags in two third-party modules that are not installed
# here and that are irrelevant to this demo; stub them.
_m = types.ModuleType('filelock'); _m.FileLock = object; _m.Timeout = Exception
sys.modules['filelock'] = _m
_w = types.ModuleType('wormhole'); _w.wormhole = types.ModuleType('wormhole.wormhole'); _w.__version__ = '0'
sys.modules['wormhole'] = _w; sys.modules['wormhole.wormhole'] = _w.wormhole

from urllib.parse import quote
from twisted.trial import unittest, runner, reporter
from twisted.internet import defer, reactor
from twisted.web.client import Agent, readBody
from twisted.web.http_headers import Headers
from allmydata.test.no_network import GridTestMixin
from allmydata.immutable.upload import Data
from allmydata.mutable.publish import MutableData
from allmydata.interfaces import SDMF_VERSION, MDMF_VERSION

VIOLATIONS = []
CHECKED = []

# (header value, expectation); 'full' = 200 + whole file + no Content-Range
CASES = [
    (b"bytes=a-b", 'full'),           # control: ASCII garbage -> ignored (works)
    (b"bytes=5-2", 'full'),           # control: last < first -> ignored (works)
    (b"bytes=\xff-5", 'full'),        # garbage, not UTF-8
    (b"bytes=0-\xe9", 'full'),        # garbage, not UTF-8 (latin-1 e-acute)
    (b"\xfe\xff", 'full'),            # garbage, not UTF-8
    (b"bytes=0-5,\xff", 'full'),      # garbage in the second range of a set
]


class Demo(GridTestMixin, unittest.TestCase):
    timeout = 50

    @defer.inlineCallbacks
    def test_garbage_range(self):
        self.basedir = self.mktemp()
        self.set_up_grid(oneshare=True)
        c = self.get_client(0)
        agent = Agent(reactor)
        base = self.client_baseurls[0]
        files = []
        lit = bytes(range(10))
        n = yield c.upload(Data(lit, convergence=b""))
        assert n.get_uri().startswith(b"URI:LIT:")
        files.append(("literal", lit, n.get_uri()))
        big = bytes(i % 251 for i in range(300))
        n = yield c.upload(Data(big, convergence=b""))
        assert n.get_uri().startswith(b"URI:CHK:")
        files.append(("immutable", big, n.get_uri()))
        n = yield c.create_mutable_file(MutableData(big), version=SDMF_VERSION)
        files.append(("mutable-SDMF", big, n.get_uri()))
        n = yield c.create_mutable_file(MutableData(big), version=MDMF_VERSION)
        files.append(("mutable-MDMF", big, n.get_uri()))

        for kind, data, cap in files:
            url = (base + "uri/" + quote(cap.decode("ascii"))).encode("ascii")
            for hv, exp in CASES:
                for meth in (b"GET", b"HEAD"):
                    h = Headers()
                    h.addRawHeader(b"range", hv)
                    resp = yield agent.request(meth, url, h)
                    body = yield readBody(resp)
                    cr = resp.headers.getRawHeaders(b"content-range")
                    ok = (resp.code == 200 and cr is None and
                          (body == data if meth == b"GET" else
                           (body == b"" and resp.headers.getRawHeaders(b"content-length") == [b"%d" % len(data)])))
                    CHECKED.append(1)
                    line = "%-12s %-4s Range: %-18r -> %d, %d body bytes%s" % (
                        kind, meth.decode(), hv, resp.code, len(body),
                        "" if ok else "   <-- expected 200 with the full %d-byte file" % len(data))
                    print(line)
                    if not ok:
                        VIOLATIONS.append(line)


def main():
    os.chdir(tempfile.mkdtemp(prefix="c40demo"))
    suite = runner.TestLoader().loadClass(Demo)
    res = runner.TrialRunner(reporter.VerboseTextReporter, stream=open(os.devnull, "w")).run(suite)
    if not res.wasSuccessful() or not CHECKED:
        print("demo harness problem (not a verdict):", res.errors, res.failures)
        sys.exit(2)
    if VIOLATIONS:
        print("\nVIOLATION of C40: %d of %d requests with an unparseable Range header did not "
              "return the full file (500 Internal Server Error instead)" % (len(VIOLATIONS), len(CHECKED)))
        sys.exit(1)
    print("ok: every unparseable Range header was ignored (full file)")
    sys.exit(0)


if __name__ == "__main__":
    main()
