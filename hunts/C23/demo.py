"""
C23 hunt demo: one legal data write far past the end destroys the share's
extra leases (lease #5 and up).

MutableShareFile._change_container_size() zeroes the old extra-lease block and
flushes it BEFORE it seeks to / writes the new location.  If that seek or write
fails (ext4 refuses offsets >= 16 TiB with EINVAL, although the server
advertises maximum-mutable-share-size = 69105 TB and MAX_SIZE accepts it),
the exception propagates, the extra-lease pointer still designates the
now-zeroed block, and every lease beyond the four header slots is gone.
The share data is untouched and the client just sees a failed write.

Exit 1 = violation observed, 0 = not observed.
"""
import os, sys, shutil, tempfile, resource

# keep the (separate) zero-fill allocation from eating RAM on filesystems that
# accept the huge seek: b"\x00" * gap must fail fast instead.
resource.setrlimit(resource.RLIMIT_AS, (8 * 2**30, 8 * 2**30))

from allmydata.storage.server import StorageServer
from allmydata.storage.mutable import MutableShareFile
from allmydata.storage.lease import LeaseInfo
from allmydata.mutable.layout import MAX_MUTABLE_SHARE_SIZE

HERE = os.path.dirname(os.path.abspath(__file__))
SI = b"s" * 16
SECRETS = (b"w" * 32, b"r" * 32, b"c" * 32)
DATA = b"hello world"
NLEASES = 7


def leases(path):
    return [(l.owner_num, l.get_expiration_time(), l.nodeid)
            for l in MutableShareFile(path).get_leases()]


def scenario(offset, label, fsize_limit=None):
    d = tempfile.mkdtemp(dir=HERE)
    try:
        ss = StorageServer(d, b"\x01" * 20)
        w = ss.slot_testv_and_readv_and_writev
        ok, _ = w(SI, SECRETS, {0: ([], [(0, DATA)], None)}, [], renew_leases=False)
        assert ok
        path = [p for _, p in ss.get_shares(SI)][0]
        for i in range(NLEASES):
            MutableShareFile(path).add_lease(
                10**9,
                LeaseInfo(i + 1, bytes([65 + i]) * 32, bytes([97 + i]) * 32,
                          1000 + i, b"\x01" * 20))
        before = leases(path)
        assert len(before) == NLEASES
        assert offset + 1 <= MAX_MUTABLE_SHARE_SIZE  # legal per the server
        if fsize_limit is not None:
            old = resource.getrlimit(resource.RLIMIT_FSIZE)
            resource.setrlimit(resource.RLIMIT_FSIZE, (fsize_limit, old[1]))
        try:
            r = w(SI, SECRETS, {0: ([], [(offset, b"X")], None)}, [],
                  renew_leases=False)
            outcome = "returned %r" % (r,)
        except BaseException as e:  # MemoryError / OSError
            outcome = "raised %s: %s" % (type(e).__name__, e)
        finally:
            if fsize_limit is not None:
                resource.setrlimit(resource.RLIMIT_FSIZE, old)
        after = leases(path)
        data = ss.slot_readv(SI, [0], [(0, 1000)])[0][0]
        print("[%s] write (offset=%d, b'X') %s" % (label, offset, outcome))
        print("[%s]   data now %r (len %d)" % (label, data[:20], len(data)))
        print("[%s]   leases before: %d  after: %d" % (label, len(before), len(after)))
        return before != after
    finally:
        shutil.rmtree(d, ignore_errors=True)


def main():
    # 1. the real thing: an offset the server claims to accept, but the
    #    filesystem (ext4: 16 TiB max file size) does not.
    bad = scenario(2**45, "real-fs")
    if not bad:
        # 2. same code path on filesystems with a 2**63 limit: any I/O failure
        #    between the zeroing and the rewrite, here a file-size ulimit.
        bad = scenario(10 * 2**20, "ulimit-f", fsize_limit=2**20)
    if bad:
        print("VIOLATION: a data write altered (destroyed) the share's extra leases")
        sys.exit(1)
    print("no violation observed")
    sys.exit(0)


main()
