"""C12 demo: a publisher silently overwrites a share that a concurrent writer
placed after the publisher's survey, when the share the publisher surveyed was
a truncated (or empty) container.  The test vector built from such a "bad
share" covers only len(what was read) bytes: 0 bytes for an empty share (SDMF:
(0, 0, b"") matches everything), or just the format byte and the leading zero
bytes of the sequence number for a share cut below 9 bytes (SDMF and MDMF).

Run: PYTHONPATH=/tmp/wt/C12h/src:/tmp/shims /venv/bin/python demo.py
Exits 1 when the violation occurs, 0 otherwise.  Real code everywhere: real
StorageServer, MutableFileNode, ServermapUpdater, Publish; only the wire between
them is a queue so that the order of requests can be chosen.
"""
import os, sys, shutil, tempfile
from twisted.internet import defer, task
from twisted.python import failure
from foolscap.eventual import flushEventualQueue
from allmydata.util import cputhreadpool, hashutil
cputhreadpool._DISABLED = True
from allmydata import uri
from allmydata.crypto import rsa
from allmydata.storage.server import StorageServer
from allmydata.mutable.filenode import MutableFileNode
from allmydata.mutable.publish import MutableData
from allmydata.mutable.layout import SDMF_VERSION, MDMF_VERSION

class Secrets:
    def get_renewal_secret(self): return hashutil.my_renewal_secret_hash(b"x")
    def get_cancel_secret(self): return hashutil.my_cancel_secret_hash(b"x")

class Net:
    controlled = False
    def __init__(self): self.pending = []; self.writes = []
    def call(self, who, sname, op, thunk):
        if not self.controlled:
            return defer.maybeDeferred(thunk)
        d = defer.Deferred()
        self.pending.append((who, sname, op, thunk, d))
        return d
    def deliver(self, pred):
        todo = [p for p in self.pending if pred(p)]
        self.pending = [p for p in self.pending if not pred(p)]
        for (who, sname, op, thunk, d) in todo:
            defer.maybeDeferred(thunk).chainDeferred(d)
        return len(todo)

class Wire:  # the IStorageServer a client sees for one real StorageServer
    def __init__(self, net, who, sname, ss): self.net, self.who, self.sname, self.ss = net, who, sname, ss
    def slot_readv(self, si, shares, readv):
        return self.net.call(self.who, self.sname, "read", lambda: self.ss.slot_readv(si, shares, readv))
    def slot_testv_and_readv_and_writev(self, si, secrets, tw, rv):
        wire = {k: ([(o, l, b"eq", s) for (o, l, s) in v[0]], v[1], v[2]) for k, v in tw.items()}
        def thunk():
            before = self.ss.slot_readv(si, list(tw), [(0, 100)])
            res = self.ss.slot_testv_and_readv_and_writev(si, secrets, wire, rv)
            for shnum in tw:
                self.net.writes.append((self.who, self.sname, shnum, tw[shnum][0], before.get(shnum, [None])[0], res[0]))
            return res
        return self.net.call(self.who, self.sname, "write", thunk)
    def advise_corrupt_share(self, *a): return defer.succeed(None)
    def add_lease(self, *a): return defer.succeed(None)

class Server:
    def __init__(self, net, who, i, ss):
        self.i = i; self.sid = (b"server%d" % i).ljust(20, b"_"); self.wire = Wire(net, who, "S%d" % i, ss)
    def get_serverid(self): return self.sid
    def get_name(self): return b"S%d" % self.i
    get_longname = get_name
    def get_storage_server(self): return self.wire
    def get_lease_seed(self): return self.sid
    def get_foolscap_write_enabler_seed(self): return self.sid
    def upload_permitted(self): return True

class Broker:
    def __init__(self, net, who, sss): self.servers = [Server(net, who, i, ss) for i, ss in enumerate(sss)]
    def get_servers_for_psi(self, si): return list(self.servers)

async def settle():
    for _ in range(3): await flushEventualQueue()

async def pump(net, pred=lambda p: True):
    await settle()
    while net.deliver(pred): await settle()

KEYS = None
async def scenario(version, keep_bytes):
    """1-of-3 file on 3 servers; the share on S1 is cut down to keep_bytes bytes;
    A and B survey; B's new share reaches S1; then A publishes."""
    global KEYS
    if KEYS is None:
        priv, pub = rsa.create_signing_keypair(2048); KEYS = (pub, priv)
    base = tempfile.mkdtemp(prefix="c12demo")
    try:
        net = Net()
        sss = [StorageServer(os.path.join(base, "s%d" % i), (b"node%d" % i).ljust(20, b"_")) for i in range(3)]
        mk = lambda who: MutableFileNode(Broker(net, who, sss), Secrets(), {"k": 1, "n": 3}, None)
        n0 = mk("init")
        await n0.create_with_keys(KEYS, b"version one " * 20, version=version)
        si = n0.get_storage_index()
        # damage S1's share through the server's own API: delete, then re-create short
        s1 = n0._storage_broker.servers[1]
        sec = (n0.get_write_enabler(s1), n0.get_renewal_secret(s1), n0.get_cancel_secret(s1))
        (shnum, (old,)), = sss[1].slot_readv(si, [], [(0, 100)]).items()
        sss[1].slot_testv_and_readv_and_writev(si, sec, {shnum: ([], [], 0)}, [])
        sss[1].slot_testv_and_readv_and_writev(
            si, sec, {shnum: ([], [(0, old[:keep_bytes])] if keep_bytes else [], None)}, [])
        surveyed = sss[1].slot_readv(si, [], [(0, 100)])[shnum][0]
        assert len(surveyed) == keep_bytes

        net.controlled = True
        cap = uri.from_string(n0.get_uri())
        got = {}
        for who in "AB":
            mk(who).init_from_cap(cap).get_best_mutable_version().addBoth(lambda r, who=who: got.__setitem__(who, r))
        await pump(net)                       # both surveys complete
        res = {}
        got["B"].overwrite(MutableData(b"contents of B " * 20)).addBoth(lambda r: res.__setitem__("B", r))
        await settle()
        await pump(net, lambda p: p[0] == "B" and p[1] == "S1")   # B's share lands on S1
        got["A"].overwrite(MutableData(b"contents of A " * 20)).addBoth(lambda r: res.__setitem__("A", r))
        await pump(net, lambda p: p[0] == "A")                    # all of A's writes
        await pump(net)                                           # the rest of B's
        show = lambda r: r.type.__name__ if isinstance(r, failure.Failure) else "success"
        a = [w for w in net.writes if w[0] == "A" and w[1] == "S1"][0]
        (_, _, _, testv, before, wrote) = a
        clobbered = wrote and before != surveyed
        print("  %s, share cut to %d bytes: A surveyed %r.. on S1; when A's write arrived S1 held seq#%d (B's);"
              % ("SDMF" if version == SDMF_VERSION else "MDMF", keep_bytes, surveyed[:9], before[8]))
        print("     A's test vector (offset, length, specimen[:9]) %r -> wrote=%s; A: %s, B: %s%s"
              % ([(o, l, s[:9]) for (o, l, s) in testv], wrote, show(res["A"]), show(res["B"]),
                 "   <-- SILENT CLOBBER" if clobbered else ""))
        return clobbered
    finally:
        shutil.rmtree(base, ignore_errors=True)

async def main(reactor):
    print("controls (detected as they should be):")
    c1 = await scenario(MDMF_VERSION, 0)
    c2 = await scenario(SDMF_VERSION, 60)
    print("cases:")
    bad = [await scenario(SDMF_VERSION, 0), await scenario(SDMF_VERSION, 5), await scenario(MDMF_VERSION, 5)]
    if any(bad) and not (c1 or c2):
        print("VIOLATION of C12: A's write replaced a share that had changed after A's survey "
              "and A did not notice (in %d of 3 cases)" % sum(bad))
        sys.stdout.flush(); os._exit(1)
    print("no violation"); sys.stdout.flush(); os._exit(0)

task.react(main)
