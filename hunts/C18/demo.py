"""C18 demo: a child whose *read slot* (ro_uri) holds a known write-cap is handed to a
read-cap holder of the directory as a WRITEABLE node (and so are all its descendants),
and the write-cap sits in the cleartext part of the directory that the read-cap holder sees.

Only the storage layer is faked (MutableFileNode.download_best_version / .modify keep the
directory bytes in a dict); dirnode.py, nodemaker.py, unknown.py, uri.py are the real code.
Run:  PYTHONPATH=/tmp/wt/C18h/src:/tmp/shims /venv/bin/python demo.py
"""
import os, sys
from twisted.internet import defer
from twisted.python.failure import Failure
from allmydata.util import cputhreadpool
cputhreadpool._DISABLED = True
from allmydata import uri
from allmydata.nodemaker import NodeMaker
from allmydata.mutable.filenode import MutableFileNode
from allmydata.mutable.common import NotWriteableError
from allmydata.util.netstring import split_netstring

STORE = {}   # storage_index -> directory bytes (stands in for the grid)

def _download_best_version(self):
    return defer.succeed(STORE.get(self.get_storage_index(), b""))
def _modify(self, modifier, backoffer=None):
    if self.is_readonly():                      # an honest grid refuses read-only nodes
        return defer.fail(NotWriteableError())
    new = modifier(STORE.get(self.get_storage_index(), b""), None, True)
    if new is not None:
        STORE[self.get_storage_index()] = new
    return defer.succeed(None)
MutableFileNode.download_best_version = _download_best_version
MutableFileNode.modify = _modify

def res(d):
    out = []
    d.addBoth(out.append)
    assert out, "deferred did not fire synchronously"
    if isinstance(out[0], Failure):
        out[0].raiseException()
    return out[0]

class SH:
    def get_convergence_secret(self): return b"c" * 16

nm = NodeMaker(None, SH(), None, None, None, {"k": 3, "n": 10}, 0, None)

def new_writecap(mdmf=False):
    cls = uri.WriteableMDMFFileURI if mdmf else uri.WriteableSSKFileURI
    return cls(os.urandom(16), os.urandom(32))

def new_dir(mdmf=False):
    return nm.create_from_cap(uri.wrap_dirnode_cap(new_writecap(mdmf)).to_string())

problems = []

# ---- the owner (holds all write-caps) builds root/sub/deep/file ---------------------
root = new_dir()
sub = new_dir(mdmf=True)
deep = new_dir()
file_w = new_writecap().to_string()
res(deep.set_uri(u"file", file_w, None))
res(sub.set_node(u"deep", deep))
sub_writecap = sub.get_uri()

# An ordinary child for comparison: stored and re-read correctly.
res(root.set_node(u"ordinary", sub))
# A child described by a future-format write-cap in the write slot, whose read slot was
# filled with a cap of a known format that happens to be a write-cap.  set_uri accepts it
# (no CapConstraintError), UnknownNode even labels it "ro.URI:DIR2-MDMF:...".
child = res(root.set_uri(u"future", b"x-tahoe-future-format:WRITE", sub_writecap))
print("set_uri accepted; child.get_readonly_uri() =", child.get_readonly_uri()[:24], b"...")

# ---- what a read-cap holder sees --------------------------------------------------
raw = STORE[root.get_storage_index()]
pos = 0
while pos < len(raw):
    (entry,), pos = split_netstring(raw, 1, pos)
    (name, roslot, rwcapdata, md), _ = split_netstring(entry, 4)
    if sub_writecap in roslot or sub_writecap in md or sub_writecap in name:
        problems.append("cleartext entry %r of the directory contains a child write-cap: %r"
                        % (name, roslot[:40]))

ro_root = nm.create_from_cap(root.get_readonly_uri())
assert ro_root.is_readonly() and ro_root.get_write_uri() is None

def walk(dirnode, path):
    for name, (c, md) in sorted(res(dirnode.list()).items()):
        p = path + "/" + name
        wu = c.get_write_uri()
        writeable = (wu is not None) or (not c.is_unknown() and not c.is_readonly())
        print("  %-28s %-18s %s" % (p, type(c).__name__, "WRITEABLE" if writeable else "read-only"))
        if writeable:
            problems.append("%s reached through the read-only root cap is writeable: %r" % (p, wu))
        if hasattr(c, "list") and not c.is_unknown():
            walk(c, p)

print("walk from the READ-ONLY root cap:")
walk(ro_root, "")

# The authority is real: the read-cap holder can change the subtree.
got = res(ro_root.get(u"future"))
try:
    res(got.set_uri(u"planted-by-reader", None, b"URI:LIT:nbswy3dp"))
    if u"planted-by-reader" in res(sub.list()):
        problems.append("holder of the root READ-cap added a child to root/future (== the owner's 'sub')")
except Exception as e:
    print("modify through read-only root failed (good):", type(e).__name__)

# ---- the same data in the two contexts where the code does enforce the constraint -----
from allmydata.interfaces import CapConstraintError
for label, kw, cap in [("immutable-dir context", dict(deep_immutable=True), sub_writecap),
                       ("explicit 'ro.' prefix", dict(), b"ro." + sub_writecap)]:
    n = nm.create_from_cap(None, cap, **kw)
    try:
        n.raise_error()
        print("  %s: accepted ?!" % label)
    except CapConstraintError as e:
        print("  %s: rejected with %s (as intended)" % (label, type(e).__name__))

if problems:
    print("\nC18 VIOLATED:")
    for p in problems:
        print(" -", p)
    sys.exit(1)
print("ok: read-only access was transitive")
sys.exit(0)
