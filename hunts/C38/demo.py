"""
C38 demo: the mutable share header does not round-trip the write enabler.

mutable_schema._header() packs the write enabler with struct "32s", which
silently NUL-pads a shorter value and silently truncates a longer one.  The
HTTP storage server accepts a write enabler of any length (only the lease
secrets are length-checked), so the value a client supplied when it created a
slot is not the value the header decodes to afterwards:
  * the creator's own write enabler is refused on the next write, and
  * a *different* write enabler (padded / truncated form) is accepted.

Exits 1 when the violation is observed, 0 otherwise.
"""
import sys, struct, tempfile, shutil, os
from base64 import b64decode

from allmydata.util import cputhreadpool
cputhreadpool._DISABLED = True
from allmydata.storage.server import StorageServer
from allmydata.storage.mutable import MutableShareFile
from allmydata.storage.mutable_schema import NEWEST_SCHEMA_VERSION
from allmydata.interfaces import BadWriteEnablerError

problems = []
NODEID = b"n" * 20
RENEW, CANCEL = b"r" * 32, b"c" * 32

# "X-Tahoe-Authorization: write-enabler abcd" is the example used by
# docs/specifications/http-storage-node-protocol.rst
SPEC_WE = b64decode(b"abcd")            # 3 bytes
LONG_WE = bytes(range(40))              # 40 bytes

# ---- 0. the HTTP layer lets such a write enabler through -------------------
try:
    from allmydata.storage.http_server import _extract_secrets
    from allmydata.storage.http_common import Secrets
    got = _extract_secrets(
        ["write-enabler abcd",
         "lease-renew-secret cnJycnJycnJycnJycnJycnJycnJycnJycnJycnJycnI=",
         "lease-cancel-secret Y2NjY2NjY2NjY2NjY2NjY2NjY2NjY2NjY2NjY2NjY2M="],
        {Secrets.WRITE_ENABLER, Secrets.LEASE_RENEW, Secrets.LEASE_CANCEL})
    print("http_server._extract_secrets accepts write-enabler of %d bytes: %r"
          % (len(got[Secrets.WRITE_ENABLER]), got[Secrets.WRITE_ENABLER]))
except Exception as e:  # only informational; the core of the demo is below
    print("(http layer check skipped: %s: %s)" % (type(e).__name__, e))

# ---- 1. codec level: header encode -> decode -------------------------------
for we in (SPEC_WE, LONG_WE, b"w" * 32):
    header = NEWEST_SCHEMA_VERSION.header(NODEID, we)
    (magic, nodeid, decoded, dlen, elo) = struct.unpack(
        ">32s20s32sQQ", header[:MutableShareFile.HEADER_SIZE])
    ok = (decoded == we)
    print("header round trip, %2d-byte write enabler: %s" % (len(we), "ok" if ok else
          "MISMATCH encoded %r decoded %r" % (we, decoded)))
    if not ok:
        problems.append("header(write_enabler=%r) decodes to %r" % (we, decoded))

# ---- 2. end to end through the real StorageServer ---------------------------
def writev(ss, si, we, data):
    return ss.slot_testv_and_readv_and_writev(
        si, (we, RENEW, CANCEL), {3: ([], [(0, data)], None)}, [])

tmp = tempfile.mkdtemp(prefix="c38h")
try:
    ss = StorageServer(os.path.join(tmp, "storage"), NODEID)
    for n, (we, other) in enumerate([
            (SPEC_WE, SPEC_WE + b"\x00" * 29),     # padded form
            (LONG_WE, LONG_WE[:32]),               # truncated form
    ]):
        si = bytes([0x42 + n]) * 16
        print("-- slot created with %d-byte write enabler %r" % (len(we), we))
        ok, _ = writev(ss, si, we, b"x" * 10)
        assert ok
        # (a) the very same secret, second request (step 2 of the spec example)
        try:
            writev(ss, si, we, b"y" * 10)
            print("   same write enabler again: accepted")
        except BadWriteEnablerError as e:
            print("   same write enabler again: REFUSED (BadWriteEnablerError)")
            problems.append("creator's own %d-byte write enabler refused" % len(we))
        # (b) a different secret
        assert other != we
        try:
            writev(ss, si, other, b"z" * 10)
            print("   DIFFERENT write enabler %r: ACCEPTED" % (other,))
            problems.append("different write enabler %r accepted for slot made with %r" % (other, we))
        except BadWriteEnablerError:
            print("   different write enabler: refused")
        print("   share now holds:", ss.slot_readv(si, [3], [(0, 10)])[3][0])
finally:
    shutil.rmtree(tmp, ignore_errors=True)

if problems:
    print("\nVIOLATION (C38: share header does not decode to the value encoded):")
    for p in problems:
        print("  -", p)
    sys.exit(1)
print("no violation")
sys.exit(0)
