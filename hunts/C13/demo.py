"""C13 hunt demo: a directory obtained twice through the SAME capability string
gets two different node objects (two serializers) while a repair's upload() is
still in flight, so a directory edit starts before the upload has finished.

Real code exercised: NodeMaker.create_from_cap/_node_cache, DirectoryNode,
MutableFileNode._do_serialized/upload/modify, Repairer, Publish, Retrieve,
ServermapUpdater, StorageServer.  Only the "network" is fake: every remote
call is held by a scheduler until it is released.
Run: PYTHONPATH=/tmp/wt/C13h/src:/tmp/shims /venv/bin/python demo.py
"""
import gc, os, shutil, sys, tempfile, weakref
from twisted.internet import defer, task
from twisted.python import failure
import foolscap.eventual as fe
import allmydata.util.cputhreadpool as ctp
ctp._DISABLED = True
from allmydata.mutable import filenode as mfilenode
from allmydata import client
from allmydata.nodemaker import NodeMaker
from allmydata.interfaces import SDMF_VERSION
from allmydata.util import base32
from allmydata.util.hashutil import tagged_hash
from allmydata.storage_client import StorageFarmBroker
from allmydata.storage.server import StorageServer, FoolscapStorageServer
from allmydata.node import config_from_string
from allmydata.mutable.publish import MutableData
from allmydata.monitor import Monitor

clock = task.Clock()          # no real reactor: eventual-sends run on this clock
fe.reactor = clock
mfilenode.reactor = clock

def pump():
    while fe._theSimpleQueue._events or any(c.getTime() <= clock.seconds() for c in clock.getDelayedCalls()):
        clock.advance(0)

class Sched:
    def __init__(self):
        self.auto, self.pending = True, []      # pending: (deferred, thunk, (server, method))
    def submit(self, thunk, desc):
        d = defer.Deferred()
        if self.auto:
            fe.eventually(self._run, d, thunk)
        else:
            self.pending.append((d, thunk, desc))
        return d
    def _run(self, d, thunk):
        try:
            r = thunk()
        except Exception:
            d.errback(failure.Failure())
        else:
            d.callback(r)
    def release(self, i=0):
        d, thunk, desc = self.pending.pop(i)
        self._run(d, thunk)
        pump()
    def count(self, meth):
        return len([p for p in self.pending if p[2][1] == meth])

class FakeRRef:
    def __init__(self, fss, sched, name):
        self.fss, self.sched, self.name = fss, sched, name
    def callRemote(self, methname, *args, **kwargs):
        meth = getattr(self.fss, "remote_" + methname)
        return self.sched.submit(lambda: meth(*args, **kwargs), (self.name, methname))
    def callRemoteOnly(self, methname, *args, **kwargs):
        self.callRemote(methname, *args, **kwargs).addErrback(lambda f: None)

class Grid:
    def __init__(self, num_servers=5, k=2, n=4):
        self.basedir = tempfile.mkdtemp(prefix="c13h")
        self.sched = Sched()
        self.broker = StorageFarmBroker(True, None, config_from_string("/dev/null", "tub.port", ""))
        self.servers = {}
        for i in range(num_servers):
            peerid = base32.b2a(tagged_hash(b"peerid", b"%d" % i)[:20])
            ss = StorageServer(os.path.join(self.basedir, "s%d" % i), peerid[:20])
            rref = FakeRRef(FoolscapStorageServer(ss), self.sched, "s%d" % i)
            ann = {"anonymous-storage-FURL": "pb://%s@nowhere/fake" % str(peerid, "utf-8"),
                   "permutation-seed-base32": peerid}
            self.broker.test_add_rref(peerid, rref, ann)
            self.servers["s%d" % i] = ss
        sh = client.SecretHolder(b"lease secret", b"convergence secret")
        self.nodemaker = NodeMaker(self.broker, sh, None, None, None,
                                   {"k": k, "n": n}, SDMF_VERSION, client.KeyGenerator())

def result_of(d):
    out = []
    d.addCallbacks(lambda r: out.append(('ok', r)), lambda f: out.append(('err', f)))
    return out

def show(r):
    if not r:
        return "still pending"
    if r[0][0] == 'err':
        return "FAILED with %s" % r[0][1].value.__class__.__name__
    return "ok"

def scenario(keep_ref):
    g = Grid()
    nm = g.nodemaker
    r = result_of(nm.create_new_mutable_directory()); pump()
    cap = r[0][1].get_uri(); del r                       # from here on: only the cap string
    r = result_of(nm.create_mutable_file(MutableData(b"kid"))); pump()
    kid = r[0][1]
    r = result_of(nm.create_from_cap(cap).set_node("pre", kid)); pump(); del r
    gc.collect()
    # lose the shares of two servers so that check_and_repair has something to upload
    holders = [name for name, ss in sorted(g.servers.items()) if os.listdir(ss.sharedir)]
    for name in holders[:2]:
        shutil.rmtree(g.servers[name].sharedir); os.makedirs(g.servers[name].sharedir)
    survivors = holders[2:]
    g.sched.auto = False

    # op1: check-and-repair on the node for `cap` (the Repairer calls MutableFileNode.upload)
    n1 = nm.create_from_cap(cap)
    inner1 = weakref.ref(n1._node)
    op1 = result_of(n1.check_and_repair(Monitor()))
    if not keep_ref:
        del n1                                           # caller does not keep the node around
    W = "slot_testv_and_readv_and_writev"
    while not g.sched.count(W):                          # run op1 until its upload's writes are in flight
        assert g.sched.pending and not op1
        g.sched.release(0)
    gc.collect()
    writes_before, reads_before = g.sched.count(W), g.sched.count("slot_readv")

    # op2: a directory edit through the SAME capability string, requested while op1 is unfinished
    n2 = nm.create_from_cap(cap)
    same_inner = (inner1() is n2._node)
    op2 = result_of(n2.set_node("new", kid)); pump()
    new_reads = g.sched.count("slot_readv") - reads_before
    overlap = (not op1) and g.sched.count(W) == writes_before and new_reads > 0
    print("  op1 (repair upload) finished: %s; its unanswered writes: %d" % (bool(op1), g.sched.count(W)))
    print("  same MutableFileNode/serializer behind both lookups of the cap: %s" % same_inner)
    print("  requests sent by op2 (set_node) while op1's writes are unanswered: %d" % new_reads)

    # consequence: answer ONE of op1's writes (to a server that still had a share), then op2's reads
    for i, p in enumerate(g.sched.pending):
        if p[2][1] == W and p[2][0] in survivors:
            g.sched.release(i); break
    for _ in range(new_reads):
        idx = [i for i, p in enumerate(g.sched.pending) if p[2][1] == "slot_readv"]
        if len(idx) <= reads_before: break
        g.sched.release(idx[reads_before])               # op2's reads were queued after op1's leftovers
    while True:                                          # everything else, in order
        pump()
        if g.sched.pending:
            g.sched.release(0)
        elif clock.getDelayedCalls():
            clock.advance(max(0, min(c.getTime() for c in clock.getDelayedCalls()) - clock.seconds()))
        else:
            break
    g.sched.auto = True
    l = result_of(nm.create_from_cap(cap).list()); pump()
    names = sorted(l[0][1].keys()) if l and l[0][0] == 'ok' else show(l)
    print("  op1: %s   op2 (set_node 'new'): %s   final children: %s" % (show(op1), show(op2), names))
    shutil.rmtree(g.basedir, ignore_errors=True)
    return overlap, same_inner, op2

print("control: caller keeps the first node object alive")
c_overlap, c_same, c_op2 = scenario(keep_ref=True)
print("test: caller drops the first node object (nodemaker.create_from_cap(cap).check_and_repair(...))")
t_overlap, t_same, t_op2 = scenario(keep_ref=False)

if c_overlap or not c_same:
    print("UNEXPECTED: control run is not serialized either"); sys.exit(1)
if t_overlap or not t_same:
    print("VIOLATION of C13: the same capability string yielded a second node object with its own "
          "serializer while an upload on the first was still in flight; the directory edit started "
          "before the upload finished%s."
          % ("" if (t_op2 and t_op2[0][0] == 'ok') else " and failed on a recoverable directory"))
    sys.exit(1)
print("no violation")
sys.exit(0)
