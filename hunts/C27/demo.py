"""
C27 hunt demo: LeaseCheckingCrawler cannot resume a cycle from its own
persisted state.

Sequence (all real code: StorageServer + its LeaseCheckingCrawler):
  1. a storage server with 4 buckets (each one immutable share, one lease)
     spread over several prefixes
  2. the lease crawler runs time slices that are interrupted after every
     bucket (cpu_slice < 0); the state is saved at the end of each slice,
     exactly as ShareCrawler.start_slice does
  3. after K slices the process "dies" *between* slices (clean point, state
     file fully written) and a new StorageServer is built on the same
     directory, i.e. the crawler restarts from its saved state
  4. the restarted crawler keeps running slices until the cycle finishes

Expected (C27): every bucket processed exactly once in cycle 0, then
last-cycle-finished == 0.
Control: the same run without the restart.
"""
import os, sys, shutil, tempfile, traceback

from allmydata.util import cputhreadpool
cputhreadpool._DISABLED = True
from allmydata.storage.server import StorageServer
from allmydata.storage.expirer import LeaseCheckingCrawler

PROCESSED = []          # (cycle, storage_index_b32) for every real call


class RecordingLeaseChecker(LeaseCheckingCrawler):
    cpu_slice = -1.0    # interrupt after every bucket / every prefix

    def process_bucket(self, cycle, prefix, prefixdir, storage_index_b32):
        LeaseCheckingCrawler.process_bucket(self, cycle, prefix, prefixdir,
                                            storage_index_b32)
        PROCESSED.append((cycle, storage_index_b32))


class Server(StorageServer):
    LeaseCheckerClass = RecordingLeaseChecker


def make_server(basedir):
    return Server(basedir, b"\x00" * 20)


def populate(ss):
    sis = [bytes([b]) * 16 for b in (0x05, 0x5a, 0xa5, 0xf0)]
    for si in sis:
        rs, cs = si + b"r" * 16, si + b"c" * 16
        already, writers = ss.allocate_buckets(si, rs, cs, [0], 100)
        assert list(writers) == [0]
        writers[0].write(0, b"x" * 100)
        writers[0].close()
    names = []
    for p in sorted(os.listdir(ss.sharedir)):
        if p != "incoming":
            names.extend(sorted(os.listdir(os.path.join(ss.sharedir, p))))
    return names


def run(restart_after):
    """Run cycle 0. If restart_after is an int, rebuild the server from the
    persisted state after that many slices. Returns (error, processed)."""
    del PROCESSED[:]
    basedir = tempfile.mkdtemp(prefix="c27h")
    try:
        ss = make_server(basedir)
        buckets = populate(ss)
        lc = ss.lease_checker
        slices = 0
        # the crawler service is never started, so start_slice() does one
        # slice, saves the state and returns without touching the reactor
        while lc.state["last-cycle-finished"] is None:
            if slices == restart_after:
                ss = make_server(basedir)       # restart from saved state
                lc = ss.lease_checker
            try:
                lc.start_slice()
            except Exception:
                return (traceback.format_exc().strip().splitlines()[-1],
                        list(PROCESSED), buckets, slices)
            slices += 1
            if slices > 5000:
                return ("cycle never finished", list(PROCESSED), buckets, slices)
        return (None, list(PROCESSED), buckets, slices)
    finally:
        shutil.rmtree(basedir, ignore_errors=True)


def check(label, restart_after):
    err, processed, buckets, slices = run(restart_after)
    got = sorted(b for (c, b) in processed if c == 0)
    ok = err is None and got == sorted(buckets)
    print("%-28s slices=%-4d processed %d/%d buckets  %s" % (
        label, slices, len(set(got)), len(buckets),
        "OK" if ok else "FAIL: %s" % (err or "coverage %r" % (got,))))
    return ok


def main():
    bad = 0
    if not check("control (no restart)", None):
        print("control failed: demo harness problem"); return 2
    for k in (0, 1, 2, 3, 5, 50, 500):
        if not check("restart after %d slices" % k, k):
            bad += 1
    if bad:
        print("VIOLATION: lease crawler restarted from its own saved state "
              "cannot finish the cycle (%d restart points fail)" % bad)
        return 1
    print("no violation")
    return 0


if __name__ == "__main__":
    sys.exit(main())
