"""
C29 demo: kill the storage server between the two low-level writes of
ShareFile.add_lease (lease record appended at EOF, then the lease count at
0x08), restart, and check the (complete, not-being-written) immutable share.

The kill is simulated in a forked child: the module-level `open` used by
allmydata.storage.immutable is replaced by one that builds the same
BufferedRandom/BufferedWriter stack over a FileIO subclass whose write()
calls os._exit() just before the N-th real write(2).  Nothing else is faked.
Exit 1 if the restarted server shows changed share data or lost leases.
"""
import io, os, shutil, sys, tempfile

from allmydata.storage.server import StorageServer
from allmydata.storage import immutable as imm

SI = b"S" * 16
NODEID = b"n" * 20
DATA = bytes(range(256)) * 4 + b"tail-of-share"      # 1037 bytes


class Clock:
    def __init__(self): self.t = 1000000.0
    def seconds(self): return self.t
    def callLater(self, *a, **k):
        class DC:
            def reset(self, *a): pass
            def cancel(self): pass
            def active(self): return False
        return DC()


def make_server(d):
    return StorageServer(d, NODEID, clock=Clock())


def snapshot(d):
    """'restart': brand-new StorageServer on the same directory."""
    ss = make_server(d)
    readers = ss.get_buckets(SI)
    if 0 not in readers:
        return None
    br = readers[0]
    data = br.read(0, 10 ** 6)
    known = [b"r0" * 16, b"r1" * 16, b"r2" * 16]
    leases = [([k for k in known if l.is_renew_secret(k)] or [b"??"])[0][:2]
              for l in ss.get_leases(SI)]
    return br.get_length(), data, leases


class KillingFileIO(io.FileIO):
    budget = None            # number of raw writes allowed before the kill
    def write(self, b):
        cls = KillingFileIO
        if cls.budget is not None:
            if cls.budget == 0:
                os._exit(77)                 # SIGKILL-like: no flush, no cleanup
            cls.budget -= 1
        return super().write(b)


def killing_open(name, mode="r", *a, **k):
    raw = KillingFileIO(name, mode.replace("b", ""))
    if "+" in mode:
        return io.BufferedRandom(raw)
    if "w" in mode or "a" in mode:
        return io.BufferedWriter(raw)
    return io.BufferedReader(raw)


def run_killed(d, n_writes_allowed, op):
    pid = os.fork()
    if pid == 0:
        try:
            ss = make_server(d)
            imm.open = killing_open           # shadows the builtin inside immutable.py
            KillingFileIO.budget = n_writes_allowed
            op(ss)
        except BaseException as e:            # pragma: no cover
            sys.stderr.write("child error: %r\n" % (e,))
            os._exit(3)
        os._exit(0)                           # operation completed, no kill
    _, status = os.waitpid(pid, 0)
    return os.WEXITSTATUS(status)


def main():
    base = tempfile.mkdtemp(prefix="c29h")
    try:
        d = os.path.join(base, "storage")
        ss = make_server(d)
        already, writers = ss.allocate_buckets(SI, b"r0" * 16, b"c0" * 16, [0], len(DATA))
        writers[0].write(0, DATA)
        writers[0].close()
        ss.add_lease(SI, b"r1" * 16, b"c1" * 16)     # second lease, complete
        pristine = os.path.join(base, "pristine")
        shutil.copytree(d, pristine)
        before = snapshot(d)
        assert before[0] == len(DATA) and before[1] == DATA and len(before[2]) == 2

        def add_lease(s):
            s.add_lease(SI, b"r2" * 16, b"c2" * 16)   # pure lease-add on a finished share

        failures = []
        for n in range(0, 10):
            shutil.rmtree(d); shutil.copytree(pristine, d)
            code = run_killed(d, n, add_lease)
            after = snapshot(d)
            what = "killed before raw write #%d" % (n + 1) if code == 77 else "ran to completion"
            problems = []
            if after is None:
                problems.append("share vanished")
            else:
                if after[0] != before[0]:
                    problems.append("share length %d -> %d" % (before[0], after[0]))
                if after[1] != before[1]:
                    problems.append("share data changed (%d extra bytes readable past the end)"
                                    % (len(after[1]) - len(before[1])))
                lost = [l for l in before[2] if l not in after[2]]
                if lost:
                    problems.append("lost lease(s) with renew secret %r"
                                    % lost)
            print("add_lease %s: %s" % (what, "; ".join(problems) or "ok"))
            if problems:
                failures.append((n, problems))
            if code != 77:
                assert code == 0, code
                break
        if failures:
            print("VIOLATION of C29: a crash inside a lease-only operation changed the "
                  "data and dropped a lease of a complete immutable share")
            return 1
        print("no violation observed")
        return 0
    finally:
        shutil.rmtree(base, ignore_errors=True)


if __name__ == "__main__":
    sys.exit(main())
