"""
C11 demo: one writer (one MutableFileNode object) publishes successfully twice,
and the second publish re-uses the sequence number of the first one, although
the only faults are *unavailable servers* (no corruption, no replay, no second
writer).  A later reader that can reach every server then sees two different
"version 2"s and may return the contents of the OLDER write.

Run:  PYTHONPATH=/tmp/wt/C11h/src:/tmp/shims /venv/bin/python demo.py
"""
import struct, sys
from twisted.internet import defer, task
from foolscap.api import fireEventually
from allmydata.util import cputhreadpool, hashutil
cputhreadpool._DISABLED = True
from allmydata.crypto import rsa
from allmydata.client import SecretHolder
from allmydata import uri as urimod
from allmydata.mutable.filenode import MutableFileNode
from allmydata.mutable.publish import MutableData
from allmydata.mutable.common import MODE_CHECK
from allmydata.interfaces import SDMF_VERSION


class Down(Exception):
    pass


class MemStorage:
    """In-memory IStorageServer for mutable slots (real test-and-set semantics)."""
    def __init__(self, srv):
        self.srv = srv

    def _chk(self):
        if self.srv.down:
            raise Down("server %r is unavailable" % self.srv.name)

    def slot_readv(self, si, shnums, readv):
        def go(_):
            self._chk()
            return {shnum: [data[o:o + l] for (o, l) in readv]
                    for shnum, data in self.srv.shares.items()
                    if not shnums or shnum in shnums}
        return fireEventually(None).addCallback(go)

    def slot_testv_and_readv_and_writev(self, si, secrets, tw_vectors, r_vector):
        def go(_):
            self._chk()
            shares = self.srv.shares
            ok = True
            for shnum, (testv, writev, newlen) in tw_vectors.items():
                cur = shares.get(shnum, b"")
                for t in testv:
                    off, ln, spec = t[0], t[1], t[-1]
                    if cur[off:off + ln] != spec:
                        ok = False
            rd = {shnum: [d[o:o + l] for (o, l) in r_vector]
                  for shnum, d in shares.items()}
            if ok:
                for shnum, (testv, writev, newlen) in tw_vectors.items():
                    cur = bytearray(shares.get(shnum, b""))
                    for (off, data) in writev:
                        if len(cur) < off:
                            cur.extend(b"\x00" * (off - len(cur)))
                        cur[off:off + len(data)] = data
                    if newlen is not None:
                        del cur[newlen:]
                    shares[shnum] = bytes(cur)
            return (ok, rd)
        return fireEventually(None).addCallback(go)

    def add_lease(self, si, rs, cs):
        return defer.succeed(None)

    def advise_corrupt_share(self, *a):
        return defer.succeed(None)


class Srv:
    def __init__(self, i):
        self.name = b"srv%02d" % i
        self.serverid = hashutil.tagged_hash(b"peerid", b"%d" % i)[:20]
        self.shares = {}
        self.down = False
        self.ss = MemStorage(self)
    def get_serverid(self): return self.serverid
    def get_name(self): return self.name
    def get_longname(self): return self.name
    def get_storage_server(self): return self.ss
    def get_lease_seed(self): return self.serverid
    def get_foolscap_write_enabler_seed(self): return self.serverid
    def upload_permitted(self): return True


class Broker:
    def __init__(self, n):
        self.servers = [Srv(i) for i in range(n)]
    def get_servers_for_psi(self, si):
        return list(self.servers)


def make_node(broker):
    return MutableFileNode(broker, SecretHolder(b"lease", b"conv"),
                           {"k": 3, "n": 10}, None)


def seqs_on_grid(broker):
    """set of sequence numbers of all shares now stored (header is >BQ...)."""
    return sorted(set(struct.unpack(">Q", d[1:9])[0]
                      for s in broker.servers for d in s.shares.values()))


def set_down(broker, idxs):
    for i, s in enumerate(broker.servers):
        s.down = i in idxs


KEY = None
A = b"contents A (written FIRST by the writer)"
B = b"contents B (written SECOND by the same writer)"


@defer.inlineCallbacks
def one_round(rnd):
    global KEY
    if KEY is None:
        priv, pub = rsa.create_signing_keypair(2048)
        KEY = (pub, priv)
    b = Broker(10)
    w = make_node(b)
    yield defer.ensureDeferred(w.create_with_keys(KEY, b"initial contents", version=SDMF_VERSION))
    assert seqs_on_grid(b) == [1]

    # publish #1 by the writer: servers 3..9 are unavailable
    set_down(b, set(range(3, 10)))
    yield w.overwrite(MutableData(A))            # succeeds
    seq_first = max(seqs_on_grid(b))

    # publish #2 by THE SAME node object: now servers 0..2 are unavailable
    set_down(b, set(range(0, 3)))
    before = {(i, n): d for i, s in enumerate(b.servers) for n, d in s.shares.items()}
    yield w.overwrite(MutableData(B))            # succeeds
    written = [struct.unpack(">Q", d[1:9])[0]
               for i, s in enumerate(b.servers) for n, d in s.shares.items()
               if before.get((i, n)) != d]
    seq_second = max(written)

    # everything is reachable again; a fresh reader (read from the cap) reads
    set_down(b, set())
    r = make_node(b)
    r.init_from_cap(urimod.from_string(w.get_uri()))
    smap = yield r.get_servermap(MODE_CHECK)
    got = yield r.download_best_version()
    print("round %d: writer's 1st publish wrote seq %d, 2nd publish wrote seq %d; "
          "grid now holds %s; reader got %r"
          % (rnd, seq_first, seq_second, smap.summarize_versions(), got[:10]))
    return seq_first, seq_second, got


@defer.inlineCallbacks
def main(reactor):
    not_increasing = False
    stale_read = False
    for rnd in range(8):
        s1, s2, got = yield one_round(rnd)
        if s2 <= s1:
            not_increasing = True
        if got == A:
            stale_read = True
        if not_increasing and stale_read:
            break
    if not_increasing:
        print("VIOLATION: the same writer's second successful publish did not get a "
              "higher sequence number than its first one (seq %d then seq %d)" % (s1, s2))
        if stale_read:
            print("VIOLATION (consequence): with all servers reachable, the reader "
                  "returned contents A, which the writer had replaced by B")
        sys.exit(1)
    print("ok: sequence numbers strictly increased")
    sys.exit(0)


task.react(main)
