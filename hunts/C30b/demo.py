"""
C30 demo: duplicated X-Tahoe-Authorization secrets of the same kind are not
rejected.  _extract_secrets() keeps the LAST value and silently drops the
others, so a request that carries a WRONG upload secret / write enabler is
executed (and changes state) as long as another header of the same kind
follows it.  The same headers in the other order are refused with 401.

Drives the real HTTPServer + StorageServer through twisted.web's real HTTP
parser (Site/HTTPChannel on a StringTransport); no reactor, no network.

run: PYTHONPATH=/tmp/wt/C30h/src:/tmp/shims /venv/bin/python demo.py
exit 1 = violation observed, exit 0 = not observed
"""
import sys, tempfile, shutil
from base64 import b64encode

from allmydata.util import cputhreadpool
cputhreadpool._DISABLED = True

import cbor2
from twisted.internet.task import Clock, Cooperator
from twisted.internet.testing import StringTransport
from twisted.internet.address import IPv4Address
from twisted.web.server import Site
import twisted.internet._producer_helpers as _ph

from allmydata.storage.server import StorageServer
from allmydata.storage.http_server import HTTPServer, _extract_secrets, ClientSecretsException
from allmydata.storage.http_common import Secrets
from allmydata.storage.common import si_b2a

# pull producers of the responses are driven by this private clock
_pump = Clock()
_ph.cooperate = Cooperator(scheduler=lambda f: _pump.callLater(0, f)).cooperate

SWISS = b"swissnum-abcdefg"
tmp = tempfile.mkdtemp(prefix="c30demo")
clock = Clock()
ss = StorageServer(tmp, b"\x00" * 20, clock=clock)
site = Site(HTTPServer(clock, ss, SWISS).get_resource())


def request(method, path, headers, body=b""):
    lines = [("%s %s HTTP/1.1" % (method, path)).encode(), b"Host: x"]
    for k, v in headers:
        lines.append(k.encode() + b": " + v)
    lines += [b"Content-Length: %d" % len(body), b"Connection: close"]
    proto = site.buildProtocol(IPv4Address("TCP", "127.0.0.1", 1))
    tr = StringTransport()
    proto.makeConnection(tr)
    proto.dataReceived(b"\r\n".join(lines) + b"\r\n\r\n" + body)
    while _pump.getDelayedCalls():
        _pump.advance(0)
    out = tr.value()
    return int(out.split()[1])


AUTH = ("Authorization", b"Tahoe-LAFS " + b64encode(SWISS))
def sec(kind, value):
    return ("X-Tahoe-Authorization", kind.encode() + b" " + b64encode(value))

P = "/storage/v1/"
si = si_b2a(b"A" * 16).decode()
sim = si_b2a(b"M" * 16).decode()
R, C = b"r" * 32, b"c" * 32
U_RIGHT, U_WRONG = b"u" * 20, b"X" * 20
W_RIGHT, W_WRONG = b"w" * 32, b"Z" * 32
problems = []

try:
    # 0. the unit: the docstring promises an exception when "too many"
    #    secrets are given
    try:
        got = _extract_secrets(
            ["upload-secret " + b64encode(U_WRONG).decode(),
             "upload-secret " + b64encode(U_RIGHT).decode()], {Secrets.UPLOAD})
        problems.append("_extract_secrets accepted two upload-secret headers -> %r" % (got,))
    except ClientSecretsException:
        pass

    # 1. legitimate client starts an immutable upload (share 0, 10 bytes)
    body = cbor2.dumps({"share-numbers": cbor2.CBORTag(258, [0]), "allocated-size": 10})
    code = request("POST", P + "immutable/" + si,
                   [AUTH, sec("lease-renew-secret", R), sec("lease-cancel-secret", C),
                    sec("upload-secret", U_RIGHT)], body)
    assert code == 200, code
    cr = ("Content-Range", b"bytes 0-4/10")

    # control: only the wrong secret -> 401
    code = request("PATCH", P + "immutable/%s/0" % si, [AUTH, sec("upload-secret", U_WRONG), cr], b"AAAAA")
    print("PATCH [wrong]              ->", code)
    assert code == 401
    # right first, wrong second -> refused
    code_rw = request("PATCH", P + "immutable/%s/0" % si,
                      [AUTH, sec("upload-secret", U_RIGHT), sec("upload-secret", U_WRONG), cr], b"AAAAA")
    print("PATCH [right, wrong]       ->", code_rw)
    # wrong first, right second -> executed
    bw = ss._bucket_writers[list(ss._bucket_writers)[0]]
    before = list(bw._already_written.ranges())
    code_wr = request("PATCH", P + "immutable/%s/0" % si,
                      [AUTH, sec("upload-secret", U_WRONG), sec("upload-secret", U_RIGHT), cr], b"AAAAA")
    after = list(bw._already_written.ranges())
    print("PATCH [wrong, right]       ->", code_wr, "written ranges", before, "->", after)
    if code_wr == 200 and after != before:
        problems.append("PATCH carrying a wrong upload-secret (duplicated header) was executed: "
                        "%d, ranges %r -> %r (the same headers in the other order: %d)"
                        % (code_wr, before, after, code_rw))

    # 2. mutable slot with write enabler W_RIGHT
    def rtw(headers, data):
        b = cbor2.dumps({"test-write-vectors": {0: {"test": [], "write": [{"offset": 0, "data": data}],
                                                    "new-length": None}}, "read-vector": []})
        return request("POST", P + "mutable/%s/read-test-write" % sim, headers, b)
    lease = [sec("lease-renew-secret", R), sec("lease-cancel-secret", C)]
    assert rtw([AUTH, sec("write-enabler", W_RIGHT)] + lease, b"original") == 200
    read = lambda: ss.slot_readv(b"M" * 16, [0], [(0, 100)])[0][0]
    code = rtw([AUTH, sec("write-enabler", W_WRONG)] + lease, b"EVIL")
    print("RTW   [wrong]              ->", code, read())
    assert code == 401 and read() == b"original"
    code_rw = rtw([AUTH, sec("write-enabler", W_RIGHT), sec("write-enabler", W_WRONG)] + lease, b"EVIL")
    print("RTW   [right, wrong]       ->", code_rw, read())
    code_wr = rtw([AUTH, sec("write-enabler", W_WRONG), sec("write-enabler", W_RIGHT)] + lease, b"CHANGED!")
    print("RTW   [wrong, right]       ->", code_wr, read())
    if code_wr == 200 and read() != b"original":
        problems.append("mutable write carrying a wrong write-enabler (duplicated header) was executed: "
                        "%d, share now %r (other order: %d)" % (code_wr, read(), code_rw))

    # 3. for comparison, the Authorization header: the FIRST one wins
    a_wrong = ("Authorization", b"Tahoe-LAFS " + b64encode(b"not-the-swissnum"))
    print("GET version Authorization [right, wrong] ->", request("GET", P + "version", [AUTH, a_wrong]))
    print("GET version Authorization [wrong, right] ->", request("GET", P + "version", [a_wrong, AUTH]))
finally:
    shutil.rmtree(tmp, ignore_errors=True)

if problems:
    print("VIOLATION: duplicated secrets are not rejected:")
    for p in problems:
        print("  -", p)
    sys.exit(1)
print("ok: duplicated secrets were rejected")
sys.exit(0)
