"""
C45 demo: a share whose "UEB length" field is corrupted upwards (one flipped
bit) is reported GOOD by the immutable verifier, although no reader can use
it to obtain the UEB.  Scenario: 2-of-5 file, 3 shares deleted, the 2 surviving
shares each get that one-bit flip.  The verify-check says "recoverable, 2 good
shares, 0 corrupt", but the file can neither be read nor repaired.

Run:  PYTHONPATH=/tmp/wt/C45h/src:/tmp/shims /venv/bin/python demo.py
exit 1 = violation observed, exit 0 = not observed.
"""
import os, sys, struct, shutil, tempfile, hashlib
from zope.interface import implementer
from twisted.internet import defer, task
from foolscap.api import Referenceable
import allmydata.util.cputhreadpool as ctp
ctp._DISABLED = True
from allmydata.interfaces import IServer
from allmydata.storage.server import StorageServer, FoolscapStorageServer
from allmydata.storage.common import storage_index_to_dir
from allmydata.storage_client import _StorageServer
from allmydata.immutable import upload
from allmydata.immutable.filenode import ImmutableFileNode, CiphertextFileNode
from allmydata.client import SecretHolder
from allmydata.monitor import Monitor
from allmydata import uri
from allmydata.util import hashutil
from allmydata.util.consumer import download_to_data

K, N, SIZE, SEG, NSERVERS = 2, 5, 1000, 300, 5

class Canary:
    def notifyOnDisconnect(self, *a, **kw): return None
    def dontNotifyOnDisconnect(self, *a): pass

class LocalRef:
    """in-memory stand-in for a foolscap RemoteReference"""
    def __init__(self, obj): self.obj = obj
    def callRemote(self, name, *a, **kw):
        def _call():
            a2 = tuple(Canary() if isinstance(x, Referenceable) else x for x in a)
            kw2 = {k: (Canary() if isinstance(v, Referenceable) else v) for k, v in kw.items()}
            return self._wrap(getattr(self.obj, "remote_" + name)(*a2, **kw2))
        return defer.maybeDeferred(_call)
    def _wrap(self, r):
        w = lambda v: LocalRef(v) if (hasattr(v, "remote_read") or hasattr(v, "remote_write")) else v
        if isinstance(r, dict):
            return {k: w(v) for k, v in r.items()}
        if isinstance(r, tuple) and len(r) == 2 and isinstance(r[1], dict):
            return (r[0], {k: w(v) for k, v in r[1].items()})
        return r

@implementer(IServer)
class FakeServer:
    def __init__(self, num, basedir):
        self.num = num
        self.serverid = hashlib.sha1(b"server%d" % num).digest()
        self.dir = os.path.join(basedir, "s%d" % num)
        self.fss = FoolscapStorageServer(StorageServer(self.dir, self.serverid))  # REAL server
        self.rref = LocalRef(self.fss)
        self._ss = _StorageServer(lambda: self.rref)
        self.version = self.fss.remote_get_version()
    def get_serverid(self): return self.serverid
    def get_permutation_seed(self): return self.serverid
    def get_lease_seed(self): return self.serverid
    def get_name(self): return b"s%d" % self.num
    def get_longname(self): return "server%d" % self.num
    def get_nickname(self): return "nick%d" % self.num
    def get_storage_server(self): return self._ss
    def get_rref(self): return self.rref
    def get_version(self): return self.version
    def __lt__(self, o): return self.num < o.num

class FakeBroker:
    def __init__(self, servers): self.servers = servers
    def get_connected_servers(self): return frozenset(self.servers)
    def get_servers_for_psi(self, psi, for_upload=False):
        return sorted(self.servers, key=lambda s: hashutil.permute_server_hash(psi, s.get_permutation_seed()))

class Terminator:
    def register(self, x): pass

def find_shares(servers, si):
    out = []
    for s in servers:
        d = os.path.join(s.dir, "shares", storage_index_to_dir(si))
        if os.path.isdir(d):
            out += [(s.num, int(fn), os.path.join(d, fn)) for fn in sorted(os.listdir(d)) if fn.isdigit()]
    return out

def flip_one_bit_in_ueb_length(path):
    """set the lowest clear bit of the 4-byte UEB length field (v1 share)"""
    b = bytearray(open(path, "rb").read())
    C = 12                                      # server-side container header
    ueb_off = struct.unpack(">L", b[C+0x20:C+0x24])[0]
    pos = C + ueb_off + 3                       # low byte of the length field
    old = struct.unpack(">L", b[C+ueb_off:C+ueb_off+4])[0]
    bit = 1
    while b[pos] & bit:
        bit <<= 1
    assert bit < 0x100
    b[pos] ^= bit
    new = struct.unpack(">L", b[C+ueb_off:C+ueb_off+4])[0]
    open(path, "wb").write(bytes(b))
    return old, new

@defer.inlineCallbacks
def main(reactor):
    basedir = tempfile.mkdtemp(prefix="c45demo")
    rc = 0
    try:
        servers = [FakeServer(i, basedir) for i in range(NSERVERS)]
        broker, sh = FakeBroker(servers), SecretHolder(b"lease", b"conv")
        data = os.urandom(SIZE)
        u = upload.Data(data, convergence=b"conv")
        u.set_default_encoding_parameters({"k": K, "happy": 1, "n": N, "max_segment_size": SEG})
        ur = yield upload.CHKUploader(broker, sh).start(upload.EncryptAnUploadable(u))
        vcap = uri.from_string(ur.get_verifycapstr())
        cap = uri.CHKFileURI(u._key, vcap.uri_extension_hash, K, N, SIZE)
        node = lambda: ImmutableFileNode(cap, broker, sh, Terminator(), None)

        got = yield download_to_data(node())
        assert got == data, "control download failed"
        shares = find_shares(servers, cap.get_storage_index())
        assert len(shares) == N
        for (snum, shnum, path) in shares[K:]:          # delete N-k shares
            os.unlink(path)
            print("share %d on server %d: deleted" % (shnum, snum))
        for (snum, shnum, path) in shares[:K]:          # one bit flip in each survivor
            old, new = flip_one_bit_in_ueb_length(path)
            print("share %d on server %d: UEB length field %d -> %d (one bit)" % (shnum, snum, old, new))

        cr = yield node().check(Monitor(), verify=True)
        print("verify-check: healthy=%s recoverable=%s good=%d corrupt=%d summary=%r" % (
            cr.is_healthy(), cr.is_recoverable(), cr.get_share_counter_good(),
            len(cr.get_corrupt_shares()), cr.get_summary()))
        try:
            crr = yield CiphertextFileNode(vcap, broker, sh, Terminator(), None).check_and_repair(Monitor(), verify=True)
            post = yield node().check(Monitor(), verify=True)
            print("check_and_repair(verify=True): attempted=%s successful=%s; shares now: %s" % (
                crr.get_repair_attempted(), crr.get_repair_successful(), sorted(post.get_sharemap())))
        except Exception as e:
            print("check_and_repair(verify=True) FAILED: %s" % (repr(e)[:160],))

        d = download_to_data(node())
        d.addTimeout(20, reactor)
        try:
            got = yield d
            readable = (got == data)
            print("download: ok=%s" % readable)
        except Exception as e:
            readable = False
            print("download FAILED: %s" % (repr(e)[:160],))

        if cr.is_recoverable() and not readable:
            print("VIOLATION: verifier reported %d good shares, 0 corrupt, recoverable=%s (k=%d), "
                  "but the file cannot be read from them" % (
                      cr.get_share_counter_good(), cr.is_recoverable(), K))
            rc = 1
        else:
            print("no violation observed")
    finally:
        shutil.rmtree(basedir, ignore_errors=True)
    if rc:
        # task.react exits with the code carried by SystemExit
        raise SystemExit(rc)

task.react(main)
