"""
C34 demo: a validly signed but malformed announcement aborts the whole batch
in IntroducerClient.got_announcements (exceptions raised by
_process_announcement are not contained), so the good announcements that
follow it in the same batch are never processed.  Secondary: a stored
announcement whose seqnum is not an int (5.5) is replaced by a LOWER seqnum (3).
Exits 1 when a violation is observed, 0 otherwise.
"""
import os, sys, tempfile
from twisted.python.filepath import FilePath
from twisted.internet import defer
from allmydata.introducer.client import IntroducerClient
from allmydata.introducer.server import IntroducerService
from allmydata.introducer.common import sign_to_foolscap
from allmydata.crypto import ed25519
from allmydata.util import base32


def make_client():
    d = tempfile.mkdtemp()
    got = []
    ic = IntroducerClient(None, "pb://introducer", "nick", "ver", "old",
                          lambda: (1, "nonce"),
                          FilePath(os.path.join(d, "cache.yaml")))
    ic.subscribe_to("storage", lambda key_s, ann: got.append((key_s, ann)))
    return ic, got


def sign_raw(msg, sk):
    """Genuine ed25519 signature over arbitrary message bytes."""
    sig = b"v0-" + base32.b2a(ed25519.sign_data(sk, msg))
    vk = ed25519.string_from_verifying_key(
        ed25519.verifying_key_from_signing_key(sk))[len(b"pub-"):]
    return (msg, sig, vk)


def good_ann(sk, nick, seqnum=1):
    return sign_to_foolscap({"service-name": "storage", "seqnum": seqnum,
                             "nickname": nick,
                             "anonymous-storage-FURL":
                                 "pb://abcdefgh@tcp:host:1/swiss"}, sk)


POISONS = [
    ("JSON list instead of dict", b'[1]'),
    ("no service-name", b'{"seqnum": 1}'),
    ("nickname is an int", b'{"service-name":"storage","seqnum":1,"nickname":5}'),
    ("nickname lone surrogate", b'{"service-name":"storage","seqnum":1,"nickname":"\\ud800"}'),
    ("FURL not a pb:// url", b'{"service-name":"storage","seqnum":1,"anonymous-storage-FURL":"bogus"}'),
]

failures = []
mallory, _ = ed25519.create_signing_keypair()

# ---- 1. direct: batch [good1, poison, good2]; good2 must still be processed
for label, msg in POISONS:
    alice, _ = ed25519.create_signing_keypair()
    bob, _ = ed25519.create_signing_keypair()
    ic, got = make_client()
    batch = [good_ann(alice, "alice"), sign_raw(msg, mallory), good_ann(bob, "bob")]
    exc = None
    try:
        ic.got_announcements(batch)
    except Exception as e:
        exc = e
    nicks = [a.get("nickname") for (_k, a) in got]
    if "bob" not in nicks:
        failures.append("poison %r: got_announcements raised %s(%s); delivered=%r, "
                        "'bob' (after the poison in the same batch) was never processed"
                        % (label, type(exc).__name__, exc, nicks))

# ---- 2. end to end: the real IntroducerService accepts and relays the poison
class FakeSubscriberRef:
    """stands in for the foolscap RemoteReference to the client"""
    def __init__(self, client):
        self.client = client
    def notifyOnDisconnect(self, cb):
        pass
    def callRemote(self, name, *args):
        return defer.maybeDeferred(getattr(self.client, "remote_" + name), *args)

server = IntroducerService()
N = 12
for i in range(N):
    sk, _ = ed25519.create_signing_keypair()
    server.publish(good_ann(sk, "server%d" % i), None, None)
server.publish(sign_raw(POISONS[2][1], mallory), None, None)   # accepted by server
ic, got = make_client()
errs = []
d = server.add_subscriber(FakeSubscriberRef(ic), "storage", {"version": 0})
# server attaches log.err; observe how many of the N good servers the client saw
delivered = len(got)
print("end-to-end: introducer holds %d good + 1 poison announcement; "
      "new subscriber received %d of %d good ones in the subscribe batch"
      % (N, delivered, N))
if delivered < N:
    failures.append("end-to-end: only %d of %d honest servers reached the client "
                    "after one signed-but-malformed announcement was published"
                    % (delivered, N))
try:
    from twisted.python import log as tlog
    tlog.flushErrors()
except Exception:
    pass

# ---- 3. seqnum rule: stored seqnum 5.5 is replaced by seqnum 3
carol, _ = ed25519.create_signing_keypair()
ic, got = make_client()
ic.got_announcements([sign_raw(b'{"service-name":"storage","seqnum":5.5,"nickname":"new"}', carol)])
ic.got_announcements([sign_raw(b'{"service-name":"storage","seqnum":3,"nickname":"older"}', carol)])
stored = list(ic._inbound_announcements.values())[0][0]
if stored["seqnum"] == 3:
    failures.append("seqnum rule: stored announcement with seqnum 5.5 was replaced "
                    "by one with LOWER seqnum 3 (delivered seqnums: %r)"
                    % [a.get("seqnum") for (_k, a) in got])

if failures:
    print("C34 VIOLATED:")
    for f in failures:
        print(" -", f)
    sys.exit(1)
print("C34 holds for the cases tried")
sys.exit(0)
