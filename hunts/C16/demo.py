"""
C16 demo: attenuation chain write-cap -> read-cap -> verify-cap -> verify-cap
for every directory cap kind, using the real allmydata.uri classes.

IVerifierURI extends IURI, so every verify-cap has get_verify_cap() too; it is
the bottom of the attenuation chain and must give a verify-cap of the same
kind, same storage index and same fingerprint/UEB hash (the file-level
verifiers and DirectoryURIVerifier do: they return self / an equal cap).

Exit 1 if some cap kind breaks the chain, 0 otherwise.
"""
import os, sys
from allmydata import uri
from allmydata.interfaces import IVerifierURI

def fresh_caps():
    wk, fp = os.urandom(16), os.urandom(32)
    key, ueb = os.urandom(16), os.urandom(32)
    ssk = uri.WriteableSSKFileURI(wk, fp)
    mdmf = uri.WriteableMDMFFileURI(wk, fp)
    chk = uri.CHKFileURI(key, ueb, 3, 10, 4321)
    return {
        "SSK": ssk, "MDMF": mdmf, "CHK": chk,
        "DIR2": uri.DirectoryURI(ssk),
        "DIR2-MDMF": uri.MDMFDirectoryURI(mdmf),
        "DIR2-CHK": uri.ImmutableDirectoryURI(chk),
    }

def fingerprint_of(cap):
    inner = cap.get_filenode_cap() if hasattr(cap, "get_filenode_cap") else cap
    return getattr(inner, "fingerprint", None) or getattr(inner, "uri_extension_hash")

failures = []
for round_ in range(20):                       # random secrets
    for kind, top in fresh_caps().items():
        chain = [("top", top), ("readcap", top.get_readonly())]
        for label, cap in chain:
            v = cap.get_verify_cap()
            # sanity: first-level derivation is fine for every kind
            assert IVerifierURI.providedBy(v), (kind, label)
            assert v.get_storage_index() == top.get_storage_index()
            assert fingerprint_of(v) == fingerprint_of(top)
            assert not hasattr(v, "writekey") and not hasattr(v, "readkey") and not hasattr(v, "key")
            vs = v.to_string()
            assert type(uri.from_string(vs)) is type(v)

            # bottom of the chain: the verify-cap of a verify-cap
            vv = v.get_verify_cap()
            problems = []
            if type(vv) is not type(v):
                problems.append("kind changes %s -> %s" % (type(v).__name__, type(vv).__name__))
            try:
                vvs = vv.to_string()
                if vvs != vs:
                    problems.append("string changes %r -> %r" % (vs, vvs))
            except AssertionError as e:
                problems.append("to_string() raises AssertionError(%s...)" % (str(e)[:45],))
            try:
                if vv != v:
                    problems.append("not equal to the cap it was derived from")
            except AssertionError:
                problems.append("comparison with the cap it was derived from raises AssertionError")
            if problems and round_ == 0:
                failures.append("%-9s %s.get_verify_cap().get_verify_cap(): %s"
                                % (kind, label, "; ".join(problems)))
            elif problems:
                failures.append(None)

real = [f for f in failures if f]
if failures:
    print("C16 VIOLATION: verify-cap of a verify-cap is broken for %d/%d derivations" % (len(failures), 20*6*2))
    for f in real:
        print("  " + f)
    # what a caller sees: parse a perfectly good verify-cap string, ask for its verify cap
    good = fresh_caps()["DIR2-CHK"].get_verify_cap().to_string()
    parsed = uri.from_string(b"imm." + good, deep_immutable=True)
    bad = parsed.get_verify_cap()
    print("  e.g. from_string(%r...).get_verify_cap() -> %s wrapping %s (BASE_STRING %r)"
          % (good[:30], type(bad).__name__, type(bad.get_filenode_cap()).__name__, bad.BASE_STRING))
    sys.exit(1)
print("ok: every verify-cap is its own verify-cap")
sys.exit(0)
