"""C13 demo: a directory made by create_subdirectory()/create_new_mutable_directory() is
not entered in NodeMaker._node_cache, so the same client holds two live node objects (two
serializer chains) for one capability string and runs two edits of that directory at once.
Run: PYTHONPATH=/tmp/wt/C13h/src:/tmp/shims /venv/bin/python demo.py   (exit 1 = violation)"""
import os, sys, shutil, tempfile
from twisted.internet import defer, reactor
from twisted.python.failure import Failure
import foolscap.eventual as fe
from allmydata.util import cputhreadpool, hashutil
cputhreadpool._DISABLED = True
from allmydata.storage.server import StorageServer, FoolscapStorageServer
from allmydata.storage_client import _StorageServer
from allmydata.nodemaker import NodeMaker
from allmydata.crypto import rsa
from allmydata.interfaces import SDMF_VERSION
from allmydata.mutable.filenode import MutableFileNode
from allmydata.mutable.publish import Publish

WRITE = "slot_testv_and_readv_and_writev"
class Rref:                                   # fake remote reference: calls are queued
    def __init__(self, grid, i): self.grid, self.i = grid, i
    def callRemote(self, name, *a, **kw):
        d = defer.Deferred(); self.grid.pending.append((self.i, name, a, kw, d)); return d
class Server:
    def __init__(self, grid, i, tmp):
        self.idx, self.serverid = i, bytes([65 + i]) * 20
        self.fss = FoolscapStorageServer(StorageServer(os.path.join(tmp, "s%d" % i), self.serverid))
        self._ss = _StorageServer(lambda r=Rref(grid, i): r)
    def upload_permitted(self): return True
    def get_serverid(self): return self.serverid
    get_permutation_seed = get_lease_seed = get_foolscap_write_enabler_seed = get_serverid
    def get_name(self): return b"S%d" % self.idx
    def get_storage_server(self): return self._ss
class Secrets:
    def get_renewal_secret(self): return hashutil.my_renewal_secret_hash(b"l")
    def get_cancel_secret(self): return hashutil.my_cancel_secret_hash(b"l")
class KeyGen:
    def generate(self):
        priv, pub = rsa.create_signing_keypair(2048); return defer.succeed((pub, priv))
class Grid:                                   # 4 real storage servers, ONE client (one NodeMaker)
    def __init__(self):
        self.tmp = tempfile.mkdtemp(prefix="c13h"); self.pending = []
        self.servers = [Server(self, i, self.tmp) for i in range(4)]
        self.nm = NodeMaker(self, Secrets(), None, None, None, {"k": 2, "n": 4, "happy": 1,
                            "max_segment_size": 131072}, SDMF_VERSION, KeyGen())
    def get_servers_for_psi(self, psi, for_upload=True):
        return sorted(self.servers, key=lambda s: hashutil.permute_server_hash(psi, s.serverid))
    def deliver(self, p):
        self.pending.remove(p); (i, name, a, kw, d) = p
        try: res = getattr(self.servers[i].fss, "remote_" + name)(*a, **kw)
        except Exception: d.errback(Failure()); return
        d.callback(res)
    def run(self, choose=lambda pend: pend[0]):
        while True:
            while fe._theSimpleQueue._events: fe._theSimpleQueue._turn()
            if self.pending: self.deliver(choose(self.pending)); continue
            timers = [c for c in reactor.getDelayedCalls() if c.func.__name__ != "_turn"]
            if not timers: return
            c = min(timers, key=lambda c: c.getTime()); f, a = c.func, c.args
            c.cancel(); f(*a)                 # the modify() back-off timer: fire it at once
def wait(grid, d):
    out = []; d.addBoth(out.append); grid.run(); return out[0]

# observers (the source is not changed): which serialized operations are open on which cap
events, open_ops, ucwe = [], {}, []
def observe(name):
    orig = getattr(MutableFileNode, name)
    def wrapper(self, *a, **kw):
        cap = self.get_uri()
        if open_ops.get(cap): events.append("%s on %s started while %d other operation(s) on the "
            "same cap had not finished" % (name, cap[:16].decode(), open_ops[cap]))
        open_ops[cap] = open_ops.get(cap, 0) + 1
        def done(res): open_ops[cap] -= 1; return res
        return orig(self, *a, **kw).addBoth(done)
    setattr(MutableFileNode, name, wrapper)
for n in ("_modify", "_overwrite", "_upload", "_download_best_version"): observe(n)
orig_failure = Publish._failure
def _failure(self, f=None):
    if self.surprised: ucwe.append(self._new_seqnum)
    return orig_failure(self, f)
Publish._failure = _failure

def scenario(use_fresh_handle):
    del events[:], ucwe[:]; open_ops.clear()
    g = Grid()
    try:
        rootcap = wait(g, g.nm.create_new_mutable_directory()).get_uri()
        leaf = wait(g, g.nm.create_mutable_file(b"leaf"))
        root = g.nm.create_from_cap(rootcap)
        fresh = wait(g, root.create_subdirectory(u"sub"))      # handle 1: returned by mkdir
        listed = wait(g, root.get(u"sub"))                     # handle 2: looked up in the parent
        bycap = g.nm.create_from_cap(fresh.get_uri())          # handle 3: from the cap string
        assert listed is bycap and listed.get_uri() == fresh.get_uri()
        h1 = fresh if use_fresh_handle else bycap
        ident = h1 is listed
        # two concurrent edits of "sub" through this one client
        r1, r2 = [], []
        h1.set_node(u"a", leaf, overwrite=False).addBoth(r1.append)
        listed.set_node(u"b", leaf).addBoth(r2.append)
        state = {"n": 0}
        def choose(pend):        # answer reads first; interleave the two writers' shares
            reads = [p for p in pend if p[1] != WRITE]
            if reads: return reads[0]
            state["n"] += 1
            if state["n"] == 4 and len(pend) > 1:   # 4th write: the *other* writer gets there first
                others = [p for p in pend[1:] if p[0] == pend[0][0]]
                if others: return others[0]
            return pend[0]
        g.run(choose)
        kids = wait(g, g.nm.create_from_cap(fresh.get_uri()).list())
        return ident, list(events), list(ucwe), r1[0], r2[0], sorted(kids.keys())
    finally:
        shutil.rmtree(g.tmp, ignore_errors=True)

def show(title, res):
    ident, ev, uc, r1, r2, kids = res
    print(title)
    print("  both handles are the same node object:", ident)
    print("  overlapping operations:", ev or "none")
    print("  UncoordinatedWriteErrors inside the one client:", len(uc))
    print("  set_node('a', overwrite=False) ->", repr(r1.value) if isinstance(r1, Failure) else "ok")
    print("  set_node('b')                  ->", repr(r2.value) if isinstance(r2, Failure) else "ok")
    print("  children afterwards:", kids)

control = scenario(False); show("CONTROL (both handles from create_from_cap):", control)
bad = scenario(True);      show("CASE (one handle is the node create_subdirectory returned):", bad)
if control[1] or control[2] or isinstance(control[3], Failure):
    print("harness problem: the control run is not serialized"); sys.exit(2)
if (not bad[0]) and bad[1]:
    print("VIOLATION: one client ran two edits of the same directory cap at the same time"
          " (two node objects, two serializers)")
    sys.exit(1)
print("no violation"); sys.exit(0)
