"""
C44 hunt demo: a helper-assisted upload of an already-present file returns a
different (and unusable) read-cap than a direct upload of the same file, when a
single one of the N stored shares has a damaged URI-extension block (UEB).

Run:  PYTHONPATH=/tmp/wt/C44h/src:/tmp/shims /venv/bin/python _hunt/demo.py
Exit 1 = violation observed, exit 0 = not observed.
"""
import os, sys, struct, tempfile, shutil, hashlib
from twisted.internet import defer, task
from twisted.application import service
from foolscap.api import Referenceable, fireEventually
import allmydata.util.cputhreadpool as ctp
ctp._DISABLED = True
from allmydata.storage.server import StorageServer, FoolscapStorageServer
from allmydata.storage_client import _StorageServer
from allmydata.immutable import upload, offloaded
from allmydata.immutable.filenode import ImmutableFileNode
from allmydata.client import SecretHolder, Terminator
from allmydata.util import hashutil
from allmydata.util.consumer import MemoryConsumer
from allmydata import uri

class Wrap:
    """in-memory stand-in for a foolscap RemoteReference"""
    def __init__(self, orig): self.orig = orig
    def callRemote(self, name, *args, **kw):
        w = lambda a: Wrap(a) if isinstance(a, Referenceable) else a
        args = tuple(w(a) for a in args); kw = {k: w(v) for k, v in kw.items()}
        d = fireEventually()
        d.addCallback(lambda _: getattr(self.orig, "remote_" + name)(*args, **kw))
        def _ret(res):
            if isinstance(res, dict): return {k: w(v) for k, v in res.items()}
            if isinstance(res, tuple):
                return tuple({k: w(v) for k, v in x.items()} if isinstance(x, dict) else w(x) for x in res)
            return w(res)
        return d.addCallback(_ret)
    def callRemoteOnly(self, *a, **k): self.callRemote(*a, **k)
    def notifyOnDisconnect(self, *a, **k): return None
    def dontNotifyOnDisconnect(self, *a): pass

class FakeServer:
    def __init__(self, serverid, ss):
        self.serverid = serverid
        fss = FoolscapStorageServer(ss)
        self.rref = Wrap(fss); self.version = fss.remote_get_version()
        self._ss = _StorageServer(lambda: self.rref)
    def get_serverid(self): return self.serverid
    def get_permutation_seed(self): return self.serverid
    def get_lease_seed(self): return self.serverid
    def get_name(self): return self.serverid[:4].hex().encode()
    def get_longname(self): return self.serverid.hex()
    def get_nickname(self): return "n"
    def get_rref(self): return self.rref
    def get_storage_server(self): return self._ss
    def get_version(self): return self.version

class FakeBroker:
    def __init__(self, servers): self.servers = servers
    def get_servers_for_psi(self, si, for_upload=False):
        return sorted(self.servers, key=lambda s: hashutil.permute_server_hash(si, s.serverid))
    def get_stub_server(self, serverid):
        return [s for s in self.servers if s.serverid == serverid][0]

class FakeClient(service.MultiService):
    def __init__(self, broker, params):
        service.MultiService.__init__(self)
        self.broker, self.params = broker, params
        self._secret_holder = SecretHolder(b"lease", b"conv")
    def get_encoding_parameters(self): return self.params
    def get_storage_broker(self): return self.broker

class Grid:
    def __init__(self, n):
        self.base = tempfile.mkdtemp(prefix="c44demo")
        self.servers = []
        for i in range(n):
            sid = hashlib.sha1(b"srv%d" % i).digest()
            self.servers.append(FakeServer(sid, StorageServer(os.path.join(self.base, "s%d" % i), sid)))
        self.broker = FakeBroker(self.servers)
        hdir = os.path.join(self.base, "helper"); os.makedirs(hdir)
        self.helper = offloaded.Helper(hdir, self.broker, SecretHolder(b"hl", b"x"), None, None)
    def uploader(self, params, use_helper):
        c = FakeClient(self.broker, params)
        u = upload.Uploader(); u.setServiceParent(c); c.startService()
        if use_helper: u._helper = Wrap(self.helper)      # real Helper object
        return u
    def share_files(self):
        for dp, dn, fn in os.walk(self.base):
            if os.sep + "shares" + os.sep in dp and "incoming" not in dp:
                for f in sorted(fn): yield os.path.join(dp, f)

def damage_one_ueb(path):
    """flip one bit in the share_root_hash field of this share's UEB (bit rot)"""
    raw = bytearray(open(path, "rb").read())
    base = 12                                     # share-file container header
    assert struct.unpack(">L", raw[base:base+4])[0] == 1
    ueb_off = struct.unpack(">L", raw[base+0x20:base+0x24])[0]
    ueb_len = struct.unpack(">L", raw[base+ueb_off:base+ueb_off+4])[0]
    ueb = bytes(raw[base+ueb_off+4:base+ueb_off+4+ueb_len])
    pos = ueb.index(b"share_root_hash:32:") + len(b"share_root_hash:32:")
    raw[base+ueb_off+4+pos] ^= 0x01
    open(path, "wb").write(raw)

@defer.inlineCallbacks
def try_download(grid, cap):
    node = ImmutableFileNode(uri.from_string(cap), grid.broker, SecretHolder(b"lease", b"conv"), Terminator(), None)
    try:
        c = yield node.read(MemoryConsumer())
        return b"".join(c.chunks)
    except Exception as e:
        return e

@defer.inlineCallbacks
def main(reactor):
    params = {"k": 2, "happy": 1, "n": 4, "max_segment_size": 128*1024}
    data = os.urandom(5000); conv = b"convergence secret"
    g = Grid(4)
    try:
        r0 = yield g.uploader(params, False).upload(upload.Data(data, conv))
        good = r0.get_uri()
        shares = list(g.share_files()); assert len(shares) == 4
        damage_one_ueb(shares[0])                 # 1 of 4 shares damaged; k=2, so 3 good shares remain
        rd = yield g.uploader(params, False).upload(upload.Data(data, conv))
        print("direct upload cap :", rd.get_uri().decode())
        assert rd.get_uri() == good
        back = yield try_download(g, good)
        print("file still readable with the direct cap:", back == data)
        uh = g.uploader(params, True)
        bad = None
        for attempt in range(1, 41):              # which share the helper picks is arbitrary (set.pop())
            rh = yield uh.upload(upload.Data(data, conv))
            if rh.get_uri() != good:
                bad = rh; break
        st = g.helper.get_stats()
        print("helper: upload_requests=%d already_present=%d fetched_bytes=%d" % (
            st["chk_upload_helper.upload_requests"], st["chk_upload_helper.upload_already_present"],
            st["chk_upload_helper.fetched_bytes"]))
        if bad is None:
            print("OK: helper always returned the same cap as the direct upload"); return 0
        print("helper upload cap :", bad.get_uri().decode(), "(attempt %d)" % attempt)
        print("verify caps equal :", bad.get_verifycapstr() == rd.get_verifycapstr())
        back2 = yield try_download(g, bad.get_uri())
        print("download with the helper's cap ->", "DATA OK" if back2 == data else "FAILS: %s" % (type(back2).__name__,))
        print("VIOLATION: helper-assisted upload returned a different read-cap/verify-cap than the direct upload")
        return 1
    finally:
        shutil.rmtree(g.base, ignore_errors=True)

def run(reactor):
    d = main(reactor)
    def _exit(rc):
        sys.stdout.flush(); os._exit(rc)
    d.addCallback(_exit)
    return d
task.react(run)
