"""
C31 demo: HTTP and direct storage access disagree.

Twin StorageServers; one is driven through the real HTTP client
(_HTTPStorageServer -> StorageClient -> treq StubTreq -> HTTPServer klein app),
the other through the direct path (_StorageServer -> FoolscapStorageServer).
Same operations are issued to both; results / server state are compared.

  V1  zero-length range read (immutable read(offset, 0); mutable readv (off, 0))
  V2  one upload chunk > 64 KiB that conflicts in its 2nd 64 KiB piece:
      HTTP server keeps the 1st piece, direct path writes nothing.
Exit 1 if any divergence is seen, 0 otherwise.
"""
import os, sys, shutil, tempfile
from allmydata.util import cputhreadpool
cputhreadpool._DISABLED = True
from twisted.internet import defer, _producer_helpers
from twisted.internet.task import Clock, Cooperator
from hyperlink import DecodedURL
from treq.testing import StubTreq
from allmydata.storage.server import StorageServer, FoolscapStorageServer
from allmydata.storage.http_server import HTTPServer
from allmydata.storage.http_client import StorageClient
from allmydata.storage_client import _HTTPStorageServer, _StorageServer

SWISS = b"abcd"

class Canary:
    def notifyOnDisconnect(self, *a, **k): return object()
    def dontNotifyOnDisconnect(self, m): pass

class LocalRef:
    """In-memory stand-in for a foolscap RemoteReference."""
    def __init__(self, obj): self.obj = obj
    def callRemote(self, name, *a, **k):
        return defer.maybeDeferred(
            lambda: wrap(getattr(self.obj, "remote_" + name)(*a, **k)))

def wrap(r):
    if isinstance(r, tuple): return tuple(wrap(x) for x in r)
    if isinstance(r, dict): return {k: wrap(v) for k, v in r.items()}
    if hasattr(r, "remote_write") or hasattr(r, "remote_read"): return LocalRef(r)
    return r

tmp = tempfile.mkdtemp()
clock = Clock()
# twisted.web drives pull producers via the global cooperator (real reactor);
# point it at our Clock so that no reactor has to run.  (test plumbing only)
_producer_helpers.cooperate = Cooperator(
    scheduler=lambda f: clock.callLater(0, f)).cooperate
ss_http = StorageServer(os.path.join(tmp, "h"), b"\x00" * 20, clock=clock)
ss_dir = StorageServer(os.path.join(tmp, "d"), b"\x00" * 20, clock=clock)
treq = StubTreq(HTTPServer(clock, ss_http, SWISS).get_resource())
http = _HTTPStorageServer.from_http_client(StorageClient(
    DecodedURL.from_text("http://127.0.0.1"), SWISS, treq=treq, pool=None, clock=clock))
_rref = LocalRef(FoolscapStorageServer(ss_dir))
direct = _StorageServer(lambda: _rref)
PATHS = (("http", http, ss_http), ("direct", direct, ss_dir))

def run(d):
    """-> ('ok', value) | ('err', 'ExcType: msg') | ('hang', None)"""
    res = []
    d.addCallbacks(lambda v: res.append(("ok", v)),
                   lambda f: res.append(("err", "%s: %s" % (type(f.value).__name__, f.value))))
    for _ in range(5000):
        if res: return res[0]
        clock.advance(0.001); treq.flush()
    return ("hang", None)

def ok(r):
    assert r[0] == "ok", r
    return r[1]

RS, CS = b"r" * 32, b"c" * 32
failures = []
def compare(label, results):
    (n1, r1), (n2, r2) = results
    same = (r1 == r2)
    print("  %-44s %s" % (label, "same" if same else "DIFFERENT"))
    if not same:
        print("      %-6s -> %r" % (n1, r1)); print("      %-6s -> %r" % (n2, r2))
        failures.append(label)

# ---------------------------------------------------------------- V1 --------
print("V1: zero-length range reads")
si, data = b"S" * 16, bytes(range(256)) * 2
readers = {}
for name, srv, _ in PATHS:
    _, writers = ok(run(srv.allocate_buckets(si, RS, CS, {0}, len(data), Canary())))
    ok(run(writers[0].callRemote("write", 0, data[:100])))        # chunked upload
    ok(run(writers[0].callRemote("write", 100, data[100:])))
    ok(run(writers[0].callRemote("close")))
    readers[name] = ok(run(srv.get_buckets(si)))[0]
for (off, length) in [(0, 10), (500, 100), (600, 10), (5, 0), (0, 0), (512, 0)]:
    compare("immutable read(%d, %d)" % (off, length),
            [(n, run(readers[n].callRemote("read", off, length))) for n, _, _ in PATHS])
msi, secrets = b"M" * 16, (b"w" * 32, RS, CS)
for name, srv, _ in PATHS:
    ok(run(srv.slot_testv_and_readv_and_writev(
        msi, secrets, {0: ([], [(0, b"hello world")], None)}, [])))
for readv in ([(0, 5), (20, 4)], [(0, 5), (3, 0), (20, 4)]):
    compare("mutable slot_readv([0], %r)" % (readv,),
            [(n, run(s.slot_readv(msi, [0], readv))) for n, s, _ in PATHS])

# ---------------------------------------------------------------- V2 --------
print("V2: >64KiB upload chunk whose 2nd 64KiB piece conflicts")
si2, N = b"T" * 16, 200000
good = bytes((i * 7 + 3) % 251 for i in range(N))
bad = bytearray(good); bad[100005] ^= 0xFF; bad = bytes(bad)
state = []
for name, srv, ss in PATHS:
    _, writers = ok(run(srv.allocate_buckets(si2, RS, CS, {0}, N, Canary())))
    w = writers[0]
    ok(run(w.callRemote("write", 100000, good[100000:100010])))
    r_conflict = run(w.callRemote("write", 0, bad))        # must be refused by both
    assert r_conflict[0] == "err", r_conflict
    bw = [b for b in ss._bucket_writers.values() if b.incominghome.endswith(os.sep + "0")
          and b.allocated_size() == N][0]
    required = [(a, b) for a, b, _ in bw.required_ranges().ranges()]
    with open(bw.incominghome, "rb") as f:
        f.seek(0xc); first = f.read(16)
    retry = run(w.callRemote("write", 0, bytes(1000)))[0]  # different bytes for [0,1000)
    state.append((name, {"required_after_refused_write": required,
                         "incoming_bytes_0_16_nonzero": any(first),
                         "later_write_of_other_bytes_at_0": retry}))
compare("server state after refused write", state)

shutil.rmtree(tmp, ignore_errors=True)
if failures:
    print("VIOLATION of C31: HTTP path and direct path disagree on %d operation(s):" % len(failures))
    for f in failures: print("   -", f)
    sys.exit(1)
print("no divergence observed")
sys.exit(0)
