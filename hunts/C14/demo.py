"""
C14 hunt demo.  Real code only: real StorageServer backends on temp dirs, real
StorageFarmBroker / NodeMaker / MutableFileNode / checker / repairer / publish.
The only fake is LocalRef, which turns callRemote(name, ...) into remote_<name>(...).

Part 1 (repair):  a repair that reports success leaves the file with only N-1
   shares of the repaired version plus a stale share of the old version.
   1a: one share file has a flipped bit in its container's write-enabler field
       (reads fine, check says Healthy, every write to it raises BadWriteEnablerError)
   1b: same, with the write error injected as a plain server-side exception.
Part 2 (health):  check_and_repair() reports "Healthy" (and skips repair) on a grid
   where a stale share of an older version exists and check() says "Unhealthy".
Exit status 1 if any violation is observed, 0 otherwise.
"""
import os, sys, tempfile, shutil
from twisted.internet import defer, task
from foolscap.api import fireEventually
import allmydata.util.cputhreadpool as ctp
ctp._DISABLED = True
from allmydata import client
from allmydata.nodemaker import NodeMaker
from allmydata.interfaces import SDMF_VERSION
from allmydata.util import base32
from allmydata.util.hashutil import tagged_hash
from allmydata.storage_client import StorageFarmBroker
from allmydata.storage.server import StorageServer, FoolscapStorageServer
from allmydata.storage.common import storage_index_to_dir
from allmydata.node import config_from_string
from allmydata.mutable.publish import MutableData
from allmydata.monitor import Monitor

class LocalRef:
    def __init__(self, fss):
        self.fss = fss
        self.fail_writes = False
    def callRemote(self, name, *a, **kw):
        def _call(_):
            if self.fail_writes and name == "slot_testv_and_readv_and_writev":
                raise RuntimeError("injected server-side write failure")
            return getattr(self.fss, "remote_" + name)(*a, **kw)
        return fireEventually().addCallback(_call)
    def notifyOnDisconnect(self, *a, **kw): return None
    def dontNotifyOnDisconnect(self, *a): pass

class Grid:
    def __init__(self, n):
        self.tmp = tempfile.mkdtemp(prefix="c14h")
        self.sb = StorageFarmBroker(True, None, config_from_string("/dev/null", "tub.port", ""))
        self.refs, self.ss = {}, {}
        for i in range(n):
            nodeid = tagged_hash(b"peerid", b"%d" % i)[:20]
            peerid = base32.b2a(nodeid)
            ss = StorageServer(os.path.join(self.tmp, "s%d" % i), nodeid)
            ref = LocalRef(FoolscapStorageServer(ss))
            ann = {"anonymous-storage-FURL": "pb://%s@nowhere/fake" % str(peerid, "ascii"),
                   "permutation-seed-base32": peerid}
            self.sb.test_add_rref(peerid, ref, ann)
            self.refs[peerid], self.ss[peerid] = ref, ss
        sh = client.SecretHolder(b"lease secret", b"convergence secret")
        self.nm = NodeMaker(self.sb, sh, None, None, None, {"k": 3, "n": 10},
                            SDMF_VERSION, client.KeyGenerator())
    def cleanup(self):
        shutil.rmtree(self.tmp, ignore_errors=True)
    def layout(self, si):
        "permuted-order list of (server, {shnum: path})"
        out = []
        for s in self.sb.get_servers_for_psi(si):
            d = os.path.join(self.ss[s.get_serverid()].sharedir, storage_index_to_dir(si))
            shares = {}
            if os.path.isdir(d):
                shares = dict((int(fn), os.path.join(d, fn)) for fn in os.listdir(d))
            out.append((s, shares))
        return out

def versions(cr):
    "{'seqN-xxxx': set(shnums)} from a CheckResults sharemap"
    v = {}
    for shareid in cr.get_sharemap():
        ver, sh = shareid.rsplit("-sh", 1)
        v.setdefault(ver, set()).add(int(sh))
    return v

@defer.inlineCallbacks
def part1(flip_write_enabler):
    CONTENTS = b"precious contents " * 100
    g = Grid(12)
    try:
        n = yield g.nm.create_mutable_file(MutableData(CONTENTS))
        lay = g.layout(n.get_storage_index())
        victim_server, victim_shares = lay[5]
        if flip_write_enabler:
            # mutable container: magic(32) nodeid(20) write_enabler(32) ...
            p = list(victim_shares.values())[0]
            b = bytearray(open(p, "rb").read()); b[60] ^= 1; open(p, "wb").write(bytes(b))
            cr = yield n.check(Monitor(), verify=True)
            print("   check(verify=True) with the damaged share present: %s" % cr.get_summary())
        else:
            g.refs[victim_server.get_serverid()].fail_writes = True
        os.unlink(lay[0][1][0])          # lose share 0, so that there is something to repair
        crr = yield n.check_and_repair(Monitor())
        print("   pre-repair : %s" % crr.get_pre_repair_results().get_summary())
        print("   repair attempted=%s successful=%s" % (crr.get_repair_attempted(), crr.get_repair_successful()))
        g.refs[victim_server.get_serverid()].fail_writes = False
        n2 = g.nm.create_from_cap(n.get_uri())
        cr = yield n2.check(Monitor())
        print("   fresh check: %s  %s" % (cr.get_summary(), versions(cr)))
        data = yield n2.download_best_version()
        best = max(versions(cr).items())
        bad = crr.get_repair_successful() and (len(best[1]) < 10 or len(versions(cr)) != 1 or data != CONTENTS)
        return bool(bad)
    finally:
        g.cleanup()

@defer.inlineCallbacks
def part2():
    g = Grid(16)
    try:
        n = yield g.nm.create_mutable_file(MutableData(b"version one " * 100))   # seq1 on servers #0..#9
        si = n.get_storage_index()
        order = [s for (s, sh) in g.layout(si)]
        down = dict((s.get_serverid(), g.sb.servers.pop(s.get_serverid())) for s in order[9:15])
        yield n.overwrite(MutableData(b"version two " * 100))     # servers #9..#14 offline: sh9 goes to #15
        g.sb.servers.update(down)                                 # they come back
        yield n.overwrite(MutableData(b"version three " * 100))   # seq3 on #0..#9; seq2 sh9 stays on #15
        print("   shares by permuted server index: %s" %
              dict((i, sorted(sh)) for i, (s, sh) in enumerate(g.layout(si)) if sh))
        cr = yield g.nm.create_from_cap(n.get_uri()).check(Monitor())
        print("   check()            : %s" % cr.get_summary())
        crr = yield g.nm.create_from_cap(n.get_uri()).check_and_repair(Monitor())
        pre = crr.get_pre_repair_results()
        print("   check_and_repair() : %s  (repair attempted: %s)" % (pre.get_summary(), crr.get_repair_attempted()))
        return bool(pre.is_healthy() and not cr.is_healthy())
    finally:
        g.cleanup()

@defer.inlineCallbacks
def main(reactor):
    failures = []
    print("Part 1a: share with a corrupted write-enabler, repair via check_and_repair")
    if (yield part1(True)):
        failures.append("1a: repair reported success but best version has <N shares / old version remains")
    print("Part 1b: one server raises on write, repair via check_and_repair")
    if (yield part1(False)):
        failures.append("1b: repair reported success but best version has <N shares / old version remains")
    print("Part 2: stale share beyond the MODE_WRITE search boundary")
    if (yield part2()):
        failures.append("2: check_and_repair says Healthy where check says Unhealthy (other version present)")
    for f in failures:
        print("VIOLATION " + f)
    if failures:
        sys.exit(1)
    print("no violation observed")

task.react(main)
