"""
C07 demo: a server that turns out to be full during allocation is "made
read-only" by Tahoe2ServerSelector, but the PeerSelector is never told, so the
re-planned placement again gives that (now read-only) server the same new
share, the spare writable server is never used, and the upload is declared
unhappy although a happy layout (use the spare server) was reachable.

Real code exercised: allmydata.immutable.upload.Tahoe2ServerSelector /
PeerSelector / ServerTracker, happiness_upload.share_placement,
storage_client._StorageServer, storage.server.StorageServer.
Exit 1 = violation observed, exit 0 = not observed.
"""
import sys, tempfile, shutil, os, hashlib
from twisted.internet import defer, task
from twisted.python import failure
from allmydata.util import cputhreadpool
cputhreadpool._DISABLED = True
from allmydata.immutable import upload
from allmydata.immutable.upload import Tahoe2ServerSelector, UploadStatus
from allmydata.interfaces import UploadUnhappinessError
from allmydata.storage.server import StorageServer, FoolscapStorageServer
from allmydata.storage_client import _StorageServer

N_SERVERS, TOTAL, NEEDED, HAPPY = 5, 4, 2, 4
V1 = b"http://allmydata.org/tahoe/protocols/storage/v1"


class Canary:
    def notifyOnDisconnect(self, *a, **kw): return object()
    def dontNotifyOnDisconnect(self, marker): pass


class LocalRef:
    """callRemote(name, ...) -> target.remote_<name>(...), as a Deferred."""
    def __init__(self, target): self.target = target
    def callRemote(self, name, *a, **kw):
        def call():
            if name == "allocate_buckets":
                args = list(a); args[5] = Canary()   # foolscap would supply a real canary
                got, bws = self.target.remote_allocate_buckets(*args, **kw)
                return got, {k: LocalRef(bw) for k, bw in bws.items()}
            return getattr(self.target, "remote_" + name)(*a, **kw)
        return defer.maybeDeferred(call)


class Server:
    """Minimal stand-in for NativeStorageServer: like the real one it caches
    the version dict obtained when the connection was made."""
    def __init__(self, basedir, i):
        self.serverid = hashlib.sha1(b"server-%d" % i).digest()
        self.ss = StorageServer(os.path.join(basedir, "s%d" % i), self.serverid)
        self.fss = FoolscapStorageServer(self.ss)
        self.istorage = _StorageServer(lambda: LocalRef(self.fss))
        self.connect()
    def connect(self): self.version = self.ss.get_version()
    def get_serverid(self): return self.serverid
    def get_name(self): return "srv-" + self.serverid.hex()[:6]
    def get_longname(self): return self.get_name()
    def get_lease_seed(self): return self.serverid
    def get_version(self): return self.version
    def get_storage_server(self): return self.istorage


class Broker:
    def __init__(self, servers): self.servers = servers
    def get_servers_for_psi(self, si, for_upload=False): return list(self.servers)


class Secrets:
    def get_renewal_secret(self): return b"r" * 32
    def get_cancel_secret(self): return b"c" * 32


def run_selection(servers, record):
    """Run the real server selection once; return ('happy', placements) or ('unhappy', msg)."""
    orig = upload.PeerSelector.get_share_placements
    def spy(self):
        res = orig(self)
        record.append((dict(res), set(self.peers), set(self.readonly_peers),
                       {k: set(v) for k, v in self.existing_shares.items()}))
        return res
    upload.PeerSelector.get_share_placements = spy
    try:
        sel = Tahoe2ServerSelector(b"demo", upload_status=UploadStatus(), reactor=task.Clock())
        d = sel.get_shareholders(Broker(servers), Secrets(), b"S" * 16,
                                 1000, 1000, 1, TOTAL, NEEDED, HAPPY, 500)
        out = []
        d.addBoth(out.append)
        assert out, "selection did not finish synchronously"
        res = out[0]
        if isinstance(res, failure.Failure):
            if res.check(UploadUnhappinessError):
                return "unhappy", str(res.value), sel
            res.raiseException()
        trackers, existing = res
        return "happy", {t.get_name(): sorted(t.buckets) for t in trackers}, sel
    finally:
        upload.PeerSelector.get_share_placements = orig


def main():
    base = tempfile.mkdtemp(prefix="c07demo")
    bad = []
    try:
        for full_idx in range(N_SERVERS):
            # --- scenario A: server `full_idx` fills up AFTER the client connected
            d1 = os.path.join(base, "A%d" % full_idx)
            servers = [Server(d1, i) for i in range(N_SERVERS)]
            f = servers[full_idx]
            f.ss.get_available_space = lambda: 0      # disk is now full; cached version still says "roomy"
            rec = []
            verdict, info, sel = run_selection(servers, rec)
            # --- control B: identical grid, but the full server is known to be full up front
            d2 = os.path.join(base, "B%d" % full_idx)
            servers2 = [Server(d2, i) for i in range(N_SERVERS)]
            servers2[full_idx].ss.get_available_space = lambda: 0
            servers2[full_idx].connect()              # version now advertises 0 bytes -> read-only from the start
            verdict2, info2, _ = run_selection(servers2, [])
            print("full server = #%d (%s): stale-version run -> %s ; control (known read-only) -> %s"
                  % (full_idx, f.get_name(), verdict, verdict2))
            if verdict == "unhappy" and verdict2 == "happy":
                fid = f.get_serverid()
                for n, (plan, peers, ro, existing) in enumerate(rec):
                    given = sorted(s for s, p in plan.items() if p == fid)
                    print("   plan #%d: full server in writable set=%s, in read-only set=%s, holds=%s, planned new shares for it=%s"
                          % (n + 1, fid in peers, fid in ro, sorted(existing.get(fid, ())), given))
                unused = [s.get_name() for s in servers
                          if s.get_serverid() not in set(rec[-1][0].values())]
                print("   writable servers never used by any plan:", unused)
                print("   error:", info[:160].replace("\n", " "), "...")
                bad.append(full_idx)
    finally:
        shutil.rmtree(base, ignore_errors=True)
    if bad:
        print("VIOLATION: upload declared unhappy (happy=%d) for full server index(es) %s although %d healthy "
              "writable servers were available and the control run reaches happiness %d; the re-plan kept "
              "assigning new shares to the server the selector had already made read-only."
              % (HAPPY, bad, N_SERVERS - 1, HAPPY))
        sys.exit(1)
    print("no violation observed")
    sys.exit(0)


if __name__ == "__main__":
    main()
