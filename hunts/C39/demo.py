"""C39 demo: a read that is still waiting for the background download is answered
from the state *after* later writes/truncations (or fails with AssertionError),
because GeneralSFTPFile.readChunk does not keep later requests queued behind it.
Drives the REAL GeneralSFTPFile + OverwriteableFileConsumer; only the file node,
the parent directory and the download producer are fakes."""
import sys
from zope.interface import implementer
from twisted.internet import defer
from twisted.python.failure import Failure
from foolscap import eventual
from allmydata.interfaces import IFileNode
from allmydata.frontends.sftpd import GeneralSFTPFile, FXF_READ, FXF_WRITE

def pump():
    q = eventual._theSimpleQueue          # run the eventual-send queue without a reactor
    while q._events:
        q._turn()

class FakeVersion:
    def __init__(self, data): self.data = data; self.pos = 0
    def get_size(self): return len(self.data)
    def read(self, consumer, offset=0, size=None):
        self.consumer = consumer; self.d = defer.Deferred(); return self.d
    def deliver(self, n):                 # the background download hands over n more bytes
        chunk = self.data[self.pos:self.pos+n]; self.pos += len(chunk)
        self.consumer.write(chunk)
        if self.pos >= len(self.data) and not self.d.called:
            self.d.callback(self.consumer)

@implementer(IFileNode)
class FakeNode:
    def __init__(self, data): self.version = FakeVersion(data)
    def get_best_readable_version(self): return defer.succeed(self.version)
    def is_mutable(self): return False
    def is_readonly(self): return True
    def get_write_uri(self): return None
    def get_size(self): return len(self.version.data)

class FakeParent:
    uploaded = None
    def get_write_uri(self): return b"URI:DIR2:fake"
    def add_file(self, name, uploadable, metadata=None):
        f = uploadable._filehandle; f.seek(0); self.uploaded = f.read()
        return defer.succeed(None)

ORIG = bytes((i * 7 + 3) % 251 + 1 for i in range(2000))

def scenario(label, later_ops, expect):
    node, parent = FakeNode(ORIG), FakeParent()
    h = GeneralSFTPFile(b"/f", FXF_READ | FXF_WRITE, None, b"convergence")
    h.open(parent=parent, childname=u"f", filenode=node, metadata={})
    pump()                                 # consumer exists, download registered, 0 bytes so far
    out = {}
    d = h.readChunk(0, 100)                # request 1: read, must reflect only what preceded it
    d.addCallbacks(lambda r: out.update(res=r), lambda f: out.update(res=f))
    pump()
    later_ops(h)                           # requests 2..n, sent after the read
    pump()
    node.version.deliver(300); pump()      # now the download catches up
    node.version.deliver(5000); pump()
    dc = h.close(); pump()
    got = out.get("res", "<never answered>")
    ok = (got == expect)
    shown = got if not isinstance(got, Failure) else "Failure(%s: %s)" % (got.type.__name__, got.getErrorMessage()[:90])
    if isinstance(shown, bytes): shown = "%r..%r (len %d)" % (shown[:6], shown[-6:], len(got))
    print("%-34s read(0,100) issued FIRST -> %s  [%s]" % (label, shown, "ok" if ok else "VIOLATION"))
    return ok, parent.uploaded

results = []
# control: nothing after the read
results.append(scenario("control (no later request)", lambda h: None, ORIG[:100])[0])
# A: a write sent after the read changes what the earlier read returns
okA, upA = scenario("A: later writeChunk(0,'X'*100)", lambda h: h.writeChunk(0, b"X" * 100), ORIG[:100])
results.append(okA)
# B: a truncation sent after the read makes the earlier read fail
okB, upB = scenario("B: later setAttrs(size=50)", lambda h: h.setAttrs({"size": 50}), ORIG[:100])
results.append(okB)
# C: truncate+extend sent after the read: the earlier read returns the later zeroes
def opsC(h): h.setAttrs({"size": 50}); h.setAttrs({"size": 100})
okC, upC = scenario("C: later setAttrs(50) then (100)", opsC, ORIG[:100])
results.append(okC)
# the finally uploaded contents are right in all cases (only reads are wrong)
assert upA == b"X" * 100 + ORIG[100:], "final contents A wrong"
assert upB == ORIG[:50], "final contents B wrong"
assert upC == ORIG[:50] + b"\0" * 50, "final contents C wrong"
print("final uploaded contents: correct in A, B, C")
if not all(results):
    print("C39 VIOLATED: a read waiting for the download observed requests sent after it")
    sys.exit(1)
print("no violation")
sys.exit(0)
