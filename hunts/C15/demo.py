"""C15 hunt demo: cap strings with large integer fields.

A cap string that matches the CHK grammar (NUMBER = 0|[1-9][0-9]*) but whose
size/k/N field has more than 4300 decimal digits is neither parsed into a cap
nor reported as UnknownURI: uri.from_string() (and uri.is_uri(), and
NodeMaker.create_from_cap()) raise a bare ValueError.  Symmetrically a
CHKFileURI object holding such an integer cannot be serialized.
Exit 1 if the violation is observed, 0 otherwise.
"""
import sys
from allmydata import uri
from allmydata.util import base32

failures = []
key, ueb = bytes(range(16)), bytes(range(32))
base = base32.b2a(key) + b':' + base32.b2a(ueb)

def parse(label, s):
    """property: from_string either returns an equal-string cap or UnknownURI"""
    try:
        u = uri.from_string(s)
    except Exception as e:            # nothing may escape from_string for bytes input
        failures.append("%s: from_string raised %s: %s" % (label, type(e).__name__, str(e)[:70]))
        return
    if isinstance(u, uri.UnknownURI):
        print("ok   %s: reported unknown (%r)" % (label, u.get_error()))
    elif u.to_string() == s:
        print("ok   %s: parsed as %s and re-serialized exactly" % (label, type(u).__name__))
    else:
        failures.append("%s: non-canonical re-serialization" % label)

for prefix in (b'URI:CHK:', b'URI:CHK-Verifier:', b'URI:DIR2-CHK:', b'URI:DIR2-CHK-Verifier:'):
    name = prefix.decode()
    # control: 4300-digit size is handled (parsed and round-tripped)
    parse(name + " size=4300 digits", prefix + base + b':3:10:' + b'7' * 4300)
    # 4301 digits: still inside STRING_RE, but blows up
    parse(name + " size=4301 digits", prefix + base + b':3:10:' + b'7' * 4301)
parse("URI:CHK: k=4301 digits", b'URI:CHK:' + base + b':' + b'1' * 4301 + b':10:5')
parse("imm.URI:CHK: N=4301 digits", b'imm.URI:CHK:' + base + b':3:' + b'1' * 4301 + b':5')

big = b'URI:CHK:' + base + b':3:10:' + b'7' * 4301
assert uri.CHKFileURI.STRING_RE.search(big), "string is inside the CHK grammar"

# is_uri() is documented by its code to swallow only TypeError/AssertionError
try:
    uri.is_uri(big)
except Exception as e:
    failures.append("is_uri raised %s" % type(e).__name__)

# object -> string direction: every cap object should serialize
c = uri.CHKFileURI(key, ueb, 3, 10, 10 ** 4300)      # 4301-digit size, a legal int
try:
    s = c.to_string()
    if uri.from_string(s) != c:
        failures.append("object round trip mismatch")
except Exception as e:
    failures.append("CHKFileURI(size=10**4300).to_string() raised %s: %s" % (type(e).__name__, str(e)[:60]))

# consequence one level up: a directory child with such a cap is not turned into
# an UnknownNode (as a malformed cap is) -- the exception escapes.
try:
    from allmydata.nodemaker import NodeMaker
    from allmydata.unknown import UnknownNode
    nm = NodeMaker(None, None, None, None, None, None, None, None)
    n = nm.create_from_cap(None, b'URI:CHK:' + base + b':3:10:x', deep_immutable=True, name="child")
    assert isinstance(n, UnknownNode)
    try:
        nm.create_from_cap(None, big, deep_immutable=True, name="child")
    except Exception as e:
        failures.append("NodeMaker.create_from_cap raised %s instead of returning UnknownNode" % type(e).__name__)
except ImportError as e:
    print("(nodemaker not importable here: %s)" % e)

if failures:
    print("\nVIOLATION of C15 (python %s, int_max_str_digits=%d):" %
          (sys.version.split()[0], sys.get_int_max_str_digits()))
    for f in failures:
        print("  FAIL " + f)
    sys.exit(1)
print("no violation observed")
sys.exit(0)
