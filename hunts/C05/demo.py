"""
C05 hunt demo: a convergent re-upload through an upload Helper does not return
the deterministic cap when ONE stored share has a damaged URI-extension block.

Run: PYTHONPATH=/tmp/wt/C05h/src:/tmp/shims /venv/bin/python demo.py
exit 1 = violation observed, exit 0 = not observed.
"""
import os, sys, glob, hashlib, shutil, tempfile
from twisted.internet import defer, task
from twisted.python.failure import Failure
from twisted.application import service
from foolscap.api import Referenceable
from foolscap import eventual
from allmydata.util import cputhreadpool, hashutil
cputhreadpool._DISABLED = True
from allmydata.storage.server import StorageServer, FoolscapStorageServer, si_b2a
from allmydata.storage_client import _StorageServer
from allmydata.immutable import upload, offloaded
from allmydata.immutable.layout import ReadBucketProxy
from allmydata.client import SecretHolder
from allmydata import uri


class Canary:
    def notifyOnDisconnect(self, *a, **k): return 1
    def dontNotifyOnDisconnect(self, *a): pass


class LocalRef:
    """in-memory stand-in for a foolscap RemoteReference"""
    def __init__(self, obj): self.obj = obj
    def callRemote(self, name, *a, **kw):
        def to_remote(x):      # what the callee sees
            if type(x) is Referenceable: return Canary()
            if isinstance(x, Referenceable): return LocalRef(x)
            return x
        def to_local(r):       # what the caller gets back
            if isinstance(r, Referenceable): return LocalRef(r)
            if isinstance(r, tuple): return tuple(to_local(x) for x in r)
            if isinstance(r, dict): return {k: to_local(v) for k, v in r.items()}
            return r
        try:
            r = getattr(self.obj, "remote_" + name)(
                *[to_remote(x) for x in a], **{k: to_remote(v) for k, v in kw.items()})
        except Exception:
            return defer.fail(Failure())
        if isinstance(r, defer.Deferred):
            return r.addCallback(to_local)
        return defer.succeed(to_local(r))
    def callRemoteOnly(self, name, *a, **kw): self.callRemote(name, *a, **kw)
    def notifyOnDisconnect(self, *a, **kw): return 1
    def dontNotifyOnDisconnect(self, *a): pass


class FakeServer:
    def __init__(self, i, basedir):
        self.id = hashlib.sha1(b"%d" % i).digest()
        self.ss = StorageServer(os.path.join(basedir, "s%d" % i), self.id)
        self.ref = LocalRef(FoolscapStorageServer(self.ss))
        self.version = self.ref.obj.remote_get_version()
    def get_serverid(self): return self.id
    def get_name(self): return b"srv" + self.id[:2].hex().encode()
    get_longname = get_name
    def get_lease_seed(self): return self.id
    def get_version(self): return self.version
    def get_storage_server(self): return _StorageServer(get_rref=lambda: self.ref)


class Broker:
    def __init__(self, servers): self.servers = servers
    def get_servers_for_psi(self, psi, for_upload=False):
        return sorted(self.servers, key=lambda s: hashlib.sha1(psi + s.id).digest())
    def get_stub_server(self, serverid): return serverid


class FakeClient(service.MultiService):
    def __init__(self, params):
        service.MultiService.__init__(self)
        self.basedir = tempfile.mkdtemp(prefix="c05demo")
        self.broker = Broker([FakeServer(i, self.basedir) for i in range(10)])
        self._secret_holder = SecretHolder(b"lease secret", b"conv")
        self.params = params
        self.clock = task.Clock()
    def get_encoding_parameters(self): return self.params
    def get_storage_broker(self): return self.broker


def result(d):
    out = []
    d.addBoth(out.append)
    q = eventual._theSimpleQueue        # pump foolscap's eventual-send queue, no reactor
    while not out and q._events:
        q._turn()
    assert out, "deferred did not fire"
    if isinstance(out[0], Failure):
        out[0].raiseException()
    return out[0]


def main():
    params = {"k": 3, "happy": 7, "n": 10, "max_segment_size": 128 * 1024}
    secret = b"my convergence secret"
    data = b"The quick brown fox jumps over the lazy dog. " * 200   # 9000 bytes
    c = FakeClient(params)
    u = upload.Uploader()
    u.setServiceParent(c)
    c.startService()
    up = lambda: result(u.upload(upload.Data(data, secret), reactor=c.clock)).get_uri()
    try:
        cap_a = up()
        print("first upload (direct)      :", cap_a.decode())

        # the fault: ONE of the ten stored shares gets one flipped bit inside its
        # URI extension block (the other nine shares stay intact)
        shares = sorted(glob.glob(os.path.join(c.basedir, "s*", "shares", "*", "*", "*")))
        assert len(shares) == 10, shares
        raw = bytearray(open(shares[0], "rb").read())
        pos = raw.index(b"crypttext_hash:32:") + len(b"crypttext_hash:32:")
        raw[pos] ^= 1
        open(shares[0], "wb").write(bytes(raw))

        # control: re-uploading directly still gives the deterministic cap
        for i in range(5):
            assert up() == cap_a, "direct re-upload changed the cap"
        print("5 direct re-uploads        : same cap")

        # now the same client is configured with an upload helper
        hdir = os.path.join(c.basedir, "helper")
        os.makedirs(hdir)
        helper = offloaded.Helper(hdir, c.broker, c._secret_holder, None, None)
        u._helper = LocalRef(helper)
        seen = {}
        for i in range(300):
            cap = up()
            seen[cap] = seen.get(cap, 0) + 1
            if cap != cap_a and i >= 29:
                break
        for cap, cnt in seen.items():
            print("re-upload via helper x%-3d   : %s" % (cnt, cap.decode()))
        wrong = [cap for cap in seen if cap != cap_a]
        if not wrong:
            print("OK: every re-upload returned the same cap")
            return 0
        # how many stored shares can a holder of the wrong cap actually use?
        wu = uri.from_string(wrong[0])
        usable = 0
        for s in c.broker.servers:
            buckets = result(s.get_storage_server().get_buckets(wu.storage_index))
            for shnum, b in buckets.items():
                rbp = ReadBucketProxy(b, s, si_b2a(wu.storage_index))
                ueb = result(rbp.get_uri_extension())
                if hashutil.uri_extension_hash(ueb) == wu.uri_extension_hash:
                    usable += 1
        print("shares whose UEB matches the wrong cap: %d (k=%d needed)" % (usable, wu.needed_shares))
        print("VIOLATION: same plaintext, secret, k, N and segment size, but the upload "
              "returned a different read-cap (same key/SI, different UEB hash)")
        return 1
    finally:
        shutil.rmtree(c.basedir, ignore_errors=True)


if __name__ == "__main__":
    sys.exit(main())
